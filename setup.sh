#!/bin/bash
# Offline setup: warm the build caches (plain and -race) for the harness.
set -e
cd "$(dirname "$0")"
export GOFLAGS=-mod=mod GOPROXY=off GOSUMDB=off GOTOOLCHAIN=local
T="$(mktemp -d)"
trap 'rm -rf "$T"' EXIT
( cd harness && go build -tags verif -o "$T/verif" ./cmd/verif && go build -tags verif -race -o "$T/verif-race" ./cmd/verif )
if [ -d harness/synct ]; then
  ( cd harness && go1.26.8 test -tags verif -race -c -o "$T/synct.test" ./synct )
fi
# the schedule-perturbed copy (DESIGN 10.10): warms the cache for the harness packages built with the verifyield tag
( cd harness && go build -o "$T/perturb" ./cmd/perturb ) && "$T/perturb" /repo "$T/yrepo" >/dev/null &&
  sed "s#=> /repo#=> $T/yrepo#" harness/go.mod > "$T/y.mod" && cp harness/go.sum "$T/y.sum" &&
  ( cd harness && go build -modfile="$T/y.mod" -tags "verif verifyield" -race -o "$T/verif-yield" ./cmd/verif )
"$T/verif" list >/dev/null
echo "setup ok"
