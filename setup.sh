#!/bin/bash
# Offline setup: warm the build caches (plain and -race) for the harness.
set -e
cd "$(dirname "$0")"
export GOFLAGS=-mod=mod GOPROXY=off GOSUMDB=off GOTOOLCHAIN=local
T="$(mktemp -d)"
trap 'rm -rf "$T"' EXIT
( cd harness && go build -tags verif -o "$T/verif" ./cmd/verif && go build -tags verif -race -o "$T/verif-race" ./cmd/verif )
if [ -d harness/synct ]; then
  ( cd harness && go1.26.8 test -tags verif -race -c -o "$T/synct.test" ./synct )
fi
"$T/verif" list >/dev/null
echo "setup ok"
