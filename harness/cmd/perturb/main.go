// Command perturb makes a schedule-perturbed copy of the library: perturb <repo> <dst>.
//
// It copies <repo> (without .git) to <dst> and rewrites every non-test, non-mock Go file of client/ and state/
// so that a call verifyield.Point(<site>) stands at the entry of every function body and before every statement
// of every block. Point does nothing unless VERIF_YIELD is set; when it is, a pseudo-random, seed-determined subset
// of the sites yields the processor (runtime.Gosched, a burst of them, or a sleep of some microseconds) on some of
// their passes. Nothing else is changed: all inserted calls stand at statement boundaries, where the Go scheduler
// may pre-empt a goroutine anyway, so every interleaving the perturbed copy shows is one the unchanged code can
// show - it is merely far more likely to show the rare ones (a goroutine losing the processor between an unlock
// and the next statement, inside a critical section, between a channel receive and the use of the value ...).
// The copy is what the "y-" batches of the concurrency checks are built against (see DESIGN.md 10.10).
package main

import (
	"bytes"
	"fmt"
	"go/ast"
	"go/format"
	"go/parser"
	"go/token"
	"io/fs"
	"os"
	"path/filepath"
	"strconv"
	"strings"
)

const yieldImport = "github.com/fluffle/goirc/verifyield"

func main() {
	if len(os.Args) != 3 {
		fmt.Fprintln(os.Stderr, "usage: perturb <repo> <dst>")
		os.Exit(64)
	}
	src, dst := os.Args[1], os.Args[2]
	if err := copyTree(src, dst); err != nil {
		fmt.Fprintln(os.Stderr, "perturb: copy:", err)
		os.Exit(1)
	}
	sites := 0
	var where []string
	for _, pkg := range []string{"client", "state"} {
		ents, err := os.ReadDir(filepath.Join(dst, pkg))
		if err != nil {
			continue
		}
		for _, e := range ents {
			n := e.Name()
			if e.IsDir() || !strings.HasSuffix(n, ".go") || strings.HasSuffix(n, "_test.go") || strings.HasPrefix(n, "mock") {
				continue
			}
			p := filepath.Join(dst, pkg, n)
			k, w, err := rewrite(p, sites, pkg+"/"+n)
			if err != nil {
				fmt.Fprintln(os.Stderr, "perturb:", p, err)
				os.Exit(1)
			}
			sites += k
			where = append(where, w...)
		}
	}
	if err := os.MkdirAll(filepath.Join(dst, "verifyield"), 0o755); err != nil {
		fmt.Fprintln(os.Stderr, err)
		os.Exit(1)
	}
	var tbl bytes.Buffer
	fmt.Fprintf(&tbl, "package verifyield\n\n// NumSites is the number of yield points the rewriter inserted.\nconst NumSites = %d\n\n// SiteNames says where each one stands.\nvar SiteNames = [...]string{\n", sites)
	for _, w := range where {
		fmt.Fprintf(&tbl, "\t%q,\n", w)
	}
	tbl.WriteString("}\n")
	os.WriteFile(filepath.Join(dst, "verifyield", "sites.go"), tbl.Bytes(), 0o644)
	os.WriteFile(filepath.Join(dst, "verifyield", "yield.go"), []byte(yieldSrc), 0o644)
	fmt.Printf("perturb: %d yield points in %s\n", sites, dst)
}

func copyTree(src, dst string) error {
	return filepath.WalkDir(src, func(p string, d fs.DirEntry, err error) error {
		if err != nil {
			return err
		}
		rel, _ := filepath.Rel(src, p)
		if rel == ".git" || strings.HasPrefix(rel, ".git"+string(filepath.Separator)) {
			if d.IsDir() {
				return filepath.SkipDir
			}
			return nil
		}
		t := filepath.Join(dst, rel)
		if d.IsDir() {
			return os.MkdirAll(t, 0o755)
		}
		if !d.Type().IsRegular() {
			return nil
		}
		b, err := os.ReadFile(p)
		if err != nil {
			return err
		}
		return os.WriteFile(t, b, 0o644)
	})
}

// rewrite inserts the points into one file; the first gets number base. It returns how many it inserted and where.
func rewrite(path string, base int, short string) (int, []string, error) {
	fset := token.NewFileSet()
	f, err := parser.ParseFile(fset, path, nil, parser.ParseComments)
	if err != nil {
		return 0, nil, err
	}
	n := 0
	var where []string
	curFn := "?"
	syncNext := false // the point about to be inserted stands next to a synchronisation statement
	point := func(at token.Pos) ast.Stmt {
		id := base + n
		n++
		tag := ""
		if syncNext {
			tag = "*" // (a leading '*' in SiteNames marks such a site; verifyield prefers them)
		}
		where = append(where, fmt.Sprintf("%s%s:%d %s", tag, short, fset.Position(at).Line, curFn))
		return &ast.ExprStmt{X: &ast.CallExpr{
			Fun:  &ast.SelectorExpr{X: ast.NewIdent("verifyield"), Sel: ast.NewIdent("Point")},
			Args: []ast.Expr{&ast.BasicLit{Kind: token.INT, Value: strconv.Itoa(id)}},
		}}
	}
	var list func(l []ast.Stmt) []ast.Stmt
	var visit func(n ast.Node)
	list = func(l []ast.Stmt) []ast.Stmt {
		out := make([]ast.Stmt, 0, 2*len(l))
		for i, s := range l {
			syncNext = isSync(s) || (i > 0 && isSync(l[i-1]))
			out = append(out, point(s.Pos()), s)
			syncNext = false
			visit(s)
		}
		return out
	}
	visit = func(node ast.Node) {
		ast.Inspect(node, func(x ast.Node) bool {
			switch b := x.(type) {
			case *ast.SwitchStmt:
				if b.Init != nil {
					visit(b.Init)
				}
				if b.Tag != nil {
					visit(b.Tag)
				}
				for _, c := range b.Body.List {
					visit(c)
				}
				return false
			case *ast.TypeSwitchStmt:
				if b.Init != nil {
					visit(b.Init)
				}
				visit(b.Assign)
				for _, c := range b.Body.List {
					visit(c)
				}
				return false
			case *ast.SelectStmt:
				for _, c := range b.Body.List {
					visit(c)
				}
				return false
			case *ast.BlockStmt:
				if b != nil {
					b.List = list(b.List)
				}
				return false
			case *ast.CaseClause:
				b.Body = list(b.Body)
				return false
			case *ast.CommClause:
				if b.Comm != nil {
					visit(b.Comm)
				}
				b.Body = list(b.Body)
				return false
			}
			return true
		})
	}
	for _, d := range f.Decls {
		fd, ok := d.(*ast.FuncDecl)
		if !ok {
			// function literals in package-level variables
			visit(d)
			continue
		}
		if fd.Body == nil {
			continue
		}
		curFn = fd.Name.Name
		if fd.Recv != nil && len(fd.Recv.List) == 1 {
			var tb bytes.Buffer
			format.Node(&tb, fset, fd.Recv.List[0].Type)
			curFn = "(" + tb.String() + ")." + fd.Name.Name
		}
		visit(fd.Body)
		if len(fd.Body.List) == 0 {
			fd.Body.List = []ast.Stmt{point(fd.Body.Pos())}
		}
	}
	if n == 0 {
		return 0, nil, nil
	}
	// import declaration: right after the existing ones
	imp := &ast.GenDecl{Tok: token.IMPORT, Specs: []ast.Spec{&ast.ImportSpec{
		Name: ast.NewIdent("verifyield"), Path: &ast.BasicLit{Kind: token.STRING, Value: strconv.Quote(yieldImport)}}}}
	at := 0
	for i, d := range f.Decls {
		if g, ok := d.(*ast.GenDecl); ok && g.Tok == token.IMPORT {
			at = i + 1
		}
	}
	f.Decls = append(f.Decls[:at], append([]ast.Decl{imp}, f.Decls[at:]...)...)
	// comments are dropped: their positions no longer fit, and the copy is only ever compiled
	f.Comments = nil
	var out bytes.Buffer
	// keep a build constraint, if the file has one
	if src, err := os.ReadFile(path); err == nil {
		for _, l := range strings.Split(string(src), "\n") {
			if strings.HasPrefix(l, "//go:build ") || strings.HasPrefix(l, "// +build ") {
				out.WriteString(l + "\n\n")
			}
			if strings.HasPrefix(l, "package ") {
				break
			}
		}
	}
	f.Doc = nil
	if err := format.Node(&out, fset, f); err != nil {
		return 0, nil, err
	}
	return n, where, os.WriteFile(path, out.Bytes(), 0o644)
}

// isSync says whether a statement is itself a synchronisation or scheduling point: go, send, receive, select, a call
// of Lock/Unlock/RLock/RUnlock/Wait/Done/Add/Store/Load/CompareAndSwap/Close/close/dispatch... (by name), or a
// deferred one. A yield right before or right after such a statement is where lost-update, check-then-act and
// published-too-early windows open.
func isSync(s ast.Stmt) bool {
	switch x := s.(type) {
	case *ast.GoStmt, *ast.SendStmt, *ast.SelectStmt:
		return true
	case *ast.LabeledStmt:
		return isSync(x.Stmt)
	case *ast.ForStmt, *ast.RangeStmt, *ast.IfStmt, *ast.SwitchStmt, *ast.TypeSwitchStmt, *ast.BlockStmt:
		// only the header of a compound statement counts
		found := false
		hdr := func(e ast.Node) {
			if e != nil {
				found = found || hasSyncExpr(e)
			}
		}
		switch y := x.(type) {
		case *ast.IfStmt:
			if y.Init != nil {
				hdr(y.Init)
			}
			hdr(y.Cond)
		case *ast.ForStmt:
			if y.Cond != nil {
				hdr(y.Cond)
			}
		case *ast.RangeStmt:
			hdr(y.X)
		case *ast.SwitchStmt:
			if y.Tag != nil {
				hdr(y.Tag)
			}
		}
		return found
	}
	return hasSyncExpr(s)
}

var syncNames = map[string]bool{"Lock": true, "Unlock": true, "RLock": true, "RUnlock": true, "TryLock": true, "TryRLock": true, "Wait": true, "Done": true, "Add": true,
	"Store": true, "Load": true, "Swap": true, "CompareAndSwap": true, "Close": true, "close": true, "dispatch": true, "Signal": true, "Broadcast": true,
	"StoreInt32": true, "LoadInt32": true, "AddInt32": true, "StoreInt64": true, "LoadInt64": true, "AddInt64": true, "StoreUint64": true, "LoadUint64": true, "AddUint64": true,
	"CompareAndSwapInt32": true, "CompareAndSwapInt64": true, "die": true, "cancel": true}

func hasSyncExpr(n ast.Node) bool {
	found := false
	ast.Inspect(n, func(x ast.Node) bool {
		switch y := x.(type) {
		case *ast.FuncLit:
			return false
		case *ast.UnaryExpr:
			if y.Op == token.ARROW {
				found = true
			}
		case *ast.CallExpr:
			switch f := y.Fun.(type) {
			case *ast.SelectorExpr:
				if syncNames[f.Sel.Name] {
					found = true
				}
			case *ast.Ident:
				if syncNames[f.Name] {
					found = true
				}
			}
		}
		return !found
	})
	return found
}

const yieldSrc = `// Package verifyield is generated by /verif/harness/cmd/perturb; it exists only in the perturbed scratch copy.
package verifyield

import (
	"os"
	"runtime"
	"strconv"
	"strings"
	"sync/atomic"
	"time"
)

var (
	enabled int32
	seed    uint64
	hotMod  uint64 = 16
	syncMod uint64 = 5
	coldMod uint64 = 384
	ctr     uint64
	passes  uint64
	fired   uint64
	slept   uint64
	sleptNs int64
	spunNs  int64
	start   = time.Now()
	reached [NumSites + 1]uint32
	firedAt [NumSites + 1]uint32
	hot     [NumSites + 1]uint32
)

func mix(x uint64) uint64 {
	x ^= x >> 33
	x *= 0xff51afd7ed558ccd
	x ^= x >> 33
	x *= 0xc4ceb9fe1a85ec53
	x ^= x >> 33
	return x
}

func init() {
	v := os.Getenv("VERIF_YIELD")
	if v == "" {
		return
	}
	f := strings.Split(v, ":")
	s, _ := strconv.ParseUint(f[0], 10, 64)
	if len(f) > 1 {
		if n, err := strconv.ParseUint(f[1], 10, 64); err == nil && n > 0 {
			hotMod = n
		}
	}
	if len(f) > 2 {
		if n, err := strconv.ParseUint(f[2], 10, 64); err == nil && n > 0 {
			coldMod = n
		}
	}
	Reseed(s)
	atomic.StoreInt32(&enabled, 1)
}

// Reseed chooses a new set of hot sites (the harness calls it at the start of every case).
func Reseed(s uint64) {
	atomic.StoreUint64(&seed, mix(s+0x9e3779b97f4a7c15))
	sd := atomic.LoadUint64(&seed)
	for i := range hot {
		h := uint32(0)
		m := hotMod
		if i < NumSites && len(SiteNames[i]) > 0 && SiteNames[i][0] == '*' {
			m = syncMod // next to a lock, channel, atomic, go or wait statement
		}
		if mix(uint64(i)*0x9e3779b97f4a7c15^sd)%m == 0 {
			h = 1
		}
		atomic.StoreUint32(&hot[i], h)
	}
}

// Point is what the rewriter put in front of every statement.
func Point(site uint32) {
	if atomic.LoadInt32(&enabled) == 0 {
		return
	}
	if site > NumSites {
		site = NumSites
	}
	atomic.AddUint64(&passes, 1)
	if atomic.LoadUint32(&reached[site]) == 0 {
		atomic.StoreUint32(&reached[site], 1)
	}
	c := atomic.AddUint64(&ctr, 1)
	r := mix(c*0x9e3779b97f4a7c15 ^ atomic.LoadUint64(&seed))
	if atomic.LoadUint32(&hot[site]) != 0 {
		if r&1 != 0 {
			return
		}
	} else if r%coldMod != 0 {
		return
	}
	atomic.AddUint64(&fired, 1)
	if atomic.LoadUint32(&firedAt[site]) == 0 {
		atomic.StoreUint32(&firedAt[site], 1)
	}
	switch k := (r >> 16) % 20; {
	case k < 9:
		runtime.Gosched()
	case k < 16:
		// lose the processor for 5..80 us (yielding all the while); rationed to a fifth of the process's life
		d := time.Duration(5+(r>>24)%76) * time.Microsecond
		if atomic.LoadInt64(&spunNs)+int64(d) > int64(time.Since(start))/5 {
			runtime.Gosched()
			return
		}
		atomic.AddInt64(&spunNs, int64(d))
		for t0 := time.Now(); time.Since(t0) < d; {
			runtime.Gosched()
		}
	default:
		// a real sleep: on this kind of machine it lasts about a millisecond whatever is asked for. Rationed, by
		// what it really took, to a fifth of the time the process has been running, so that a long batch is perturbed
		// from its first case to its last and takes at most about that much longer; over the ration it yields instead
		if atomic.LoadInt64(&sleptNs) > int64(time.Since(start))/5 {
			runtime.Gosched()
			return
		}
		atomic.AddUint64(&slept, 1)
		t0 := time.Now()
		time.Sleep(time.Duration(1+(r>>24)%120) * time.Microsecond)
		atomic.AddInt64(&sleptNs, int64(time.Since(t0)))
	}
}

// Stats reports what the points did in this process.
func Stats() map[string]int64 {
	m := map[string]int64{
		"yield_passes": int64(atomic.LoadUint64(&passes)),
		"yield_fired":  int64(atomic.LoadUint64(&fired)),
		"yield_sleeps": int64(atomic.LoadUint64(&slept)),
		"yield_slept_ms": atomic.LoadInt64(&sleptNs) / 1e6,
		"yield_spun_ms":  atomic.LoadInt64(&spunNs) / 1e6,
		"yield_sites":  NumSites,
	}
	for i := 0; i < NumSites; i++ {
		if atomic.LoadUint32(&reached[i]) != 0 {
			m["yield_sites_reached"]++
		}
		if atomic.LoadUint32(&firedAt[i]) != 0 {
			m["yield_sites_fired"]++
		}
	}
	return m
}
`
