package main

import (
	"bufio"
	"fmt"
	"os"
	"os/exec"
	"path/filepath"
	"regexp"
	"strconv"
	"strings"
	"time"

	"verif/harness/props"
	"verif/harness/rig"
)

var (
	fuzzExecsRe = regexp.MustCompile(`execs: (\d+)`)
	fuzzIntRe   = regexp.MustCompile(`new interesting: (\d+) \(total: (\d+)\)`)
)

// runGoFuzz runs Go's native coverage-guided fuzzer on a target of package
// verif/harness/<pkg> for a fixed number of executions. The target records
// panics in $VERIF_FUZZ_OUT instead of failing, so all sites are collected.
func runGoFuzz(o *batchOutcome, id, tier string, seed int64, b props.Batch, runDir string) {
	dir := os.Getenv("VERIF_HARNESS_DIR")
	if dir == "" {
		dir = filepath.Join(verifDir(), "harness")
	}
	outPath := filepath.Join(runDir, fmt.Sprintf("%s.%s.fuzzout", id, b.Name))
	logPath := filepath.Join(runDir, fmt.Sprintf("%s.%s.fuzzlog", id, b.Name))
	args := []string{"test"}
	if mf := os.Getenv("VERIF_MODFLAG"); mf != "" {
		args = append(args, mf)
	}
	args = append(args, "-tags", "verif", "-run", "^$", "-fuzz="+b.Args["target"], "-fuzztime="+b.Args["execs"]+"x", "-parallel", b.Args["parallel"], "./"+b.Args["pkg"])
	cmd := exec.Command("go", args...)
	cmd.Dir = dir
	o.Cmd = "go " + strings.Join(args, " ")
	lf, _ := os.Create(logPath)
	cmd.Stdout, cmd.Stderr = lf, lf
	cmd.Env = append(os.Environ(), "VERIF_FUZZ_OUT="+outPath)
	o.Attempts = 1
	t0 := time.Now()
	timeout := 20 * time.Minute
	if tier == "thorough" {
		timeout = 2 * time.Hour
	}
	if err := cmd.Start(); err != nil {
		lf.Close()
		o.ExitErr = err.Error()
		return
	}
	done := make(chan error, 1)
	go func() { done <- cmd.Wait() }()
	var werr error
	select {
	case werr = <-done:
	case <-time.After(timeout):
		cmd.Process.Kill()
		werr = <-done
		o.Timeout = true
	}
	lf.Close()
	logb, _ := os.ReadFile(logPath)
	log := string(logb)
	r := rig.NewResult(id, b.Name)
	var execs, interesting int64
	for _, m := range fuzzExecsRe.FindAllStringSubmatch(log, -1) {
		if n, _ := strconv.ParseInt(m[1], 10, 64); n > execs {
			execs = n
		}
	}
	for _, m := range fuzzIntRe.FindAllStringSubmatch(log, -1) {
		if n, _ := strconv.ParseInt(m[2], 10, 64); n > interesting {
			interesting = n
		}
	}
	if werr != nil || execs == 0 {
		tail := log
		if len(tail) > 1500 {
			tail = tail[len(tail)-1500:]
		}
		// a failing fuzz target means the target itself crashed (e.g. a fatal error outside recover)
		if strings.Contains(log, "github.com/fluffle/goirc/") && (strings.Contains(log, "panic:") || strings.Contains(log, "fatal error:")) {
			o.Crashes = append(o.Crashes, diagnoseCrash(log, "", b, werr))
		}
		o.ExitErr = fmt.Sprintf("go test -fuzz failed or made no progress: %v: %s", werr, tail)
		return
	}
	r.Evaluations = execs
	r.Counters["fuzz_execs"] = execs
	r.Counters["fuzz_interesting_inputs_total"] = interesting
	r.Counters["fuzz_wall_ms"] = time.Since(t0).Milliseconds()
	for i := int64(0); i < interesting && i < 400; i += 20 {
		r.Classes[fmt.Sprintf("fuzz|coverage-increasing-inputs>=%d", i+1)] = 1
	}
	if f, err := os.Open(outPath); err == nil {
		sc := bufio.NewScanner(f)
		sc.Buffer(make([]byte, 1<<20), 1<<20)
		for sc.Scan() {
			parts := strings.SplitN(sc.Text(), "\t", 3)
			if len(parts) < 3 {
				continue
			}
			in, _ := strconv.Unquote(parts[0])
			cls := digitsRe.ReplaceAllString(parts[2], "N")
			r.Violate(rig.Violation{
				Sig:     "panic|" + parts[1] + "|" + cls,
				Detail:  fmt.Sprintf("coverage-guided fuzzing: %s panicked on input %q: %s", parts[1], in, parts[2]),
				Case:    "fuzz:0",
				Witness: map[string]interface{}{"input": in, "stage": "native fuzzer"},
			})
		}
		f.Close()
	}
	r.Sample(map[string]interface{}{"stage": "A-coverage-guided (go test -fuzz)", "execs": execs, "coverage_increasing_inputs": interesting, "target": b.Args["target"]})
	r.Done = true
	o.Result = r
}
