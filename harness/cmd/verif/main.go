// Command verif is both the driver (builds nothing itself: ./check does
// that) and the worker of every property check.
//
//	verif drive  <id> <quick|thorough> --bin <path> --binrace <path> [--only batch/gen:idx]
//	verif worker <id> <tier> --batch <json> --result <file> --journal <file> [--only gen:idx] [--skip c1,c2]
//	verif replay <file> --bin <path> --binrace <path>
//	verif list
package main

import (
	"fmt"
	"os"

	"verif/harness/props"
)

func usage() {
	fmt.Fprintln(os.Stderr, "usage: verif drive|worker|replay|list ...")
	os.Exit(64)
}

func main() {
	if len(os.Args) < 2 {
		usage()
	}
	switch os.Args[1] {
	case "list":
		for _, id := range props.IDs() {
			fmt.Println(id)
		}
	case "worker":
		os.Exit(workerMain(os.Args[2:]))
	case "drive":
		os.Exit(driveMain(os.Args[2:]))
	case "replay":
		os.Exit(replayMain(os.Args[2:]))
	default:
		usage()
	}
}
