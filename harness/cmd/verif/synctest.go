package main

import (
	"encoding/json"
	"fmt"
	"os"
	"os/exec"
	"path/filepath"
	"strings"
	"syscall"
	"time"

	"verif/harness/props"
	"verif/harness/rig"
)

// runSynctest runs one virtual-time batch: a test binary of package
// verif/harness/synct built by ./check with go1.26.8 (-race), path in
// $VERIF_SYNCT_BIN. The test writes a rig.Result to $VERIF_RESULT.
func runSynctest(o *batchOutcome, id, tier string, seed int64, b props.Batch, runDir, onlyCase string) {
	exe := os.Getenv("VERIF_SYNCT_BIN")
	if exe == "" {
		o.ExitErr = "VERIF_SYNCT_BIN not set (synctest binary not built)"
		return
	}
	base := filepath.Join(runDir, fmt.Sprintf("%s.%s.synct", id, b.Name))
	resPath, errPath := base+".result.json", base+".stderr"
	bj, _ := json.Marshal(b)
	timeout := time.Duration(b.TimeoutS) * time.Second
	if timeout == 0 {
		timeout = 4 * time.Minute
		if tier == "thorough" {
			timeout = 90 * time.Minute
		}
	}
	args := []string{"-test.run", "^" + b.Args["test"] + "$", "-test.count=1", "-test.timeout", (timeout + time.Minute).String(), "-test.v"}
	cmd := exec.Command(exe, args...)
	o.Cmd = exe + " " + strings.Join(args, " ")
	ef, _ := os.Create(errPath)
	cmd.Stdout, cmd.Stderr = ef, ef
	env := append(os.Environ(),
		"VERIF_RESULT="+resPath, "VERIF_BATCH="+string(bj), "VERIF_TIER="+tier,
		fmt.Sprintf("VERIF_SEED=%d", seed), "VERIF_ONLY="+onlyCase, "VERIF_PROP="+id,
		fmt.Sprintf("GORACE=halt_on_error=0 exitcode=0 log_path=%s.race", base))
	if b.Procs > 0 {
		env = append(env, fmt.Sprintf("GOMAXPROCS=%d", b.Procs))
	}
	cmd.Env = env
	o.Attempts = 1
	if err := cmd.Start(); err != nil {
		ef.Close()
		o.ExitErr = err.Error()
		return
	}
	done := make(chan error, 1)
	go func() { done <- cmd.Wait() }()
	var werr error
	select {
	case werr = <-done:
	case <-time.After(timeout):
		cmd.Process.Signal(syscall.SIGQUIT)
		select {
		case werr = <-done:
		case <-time.After(10 * time.Second):
			cmd.Process.Kill()
			werr = <-done
		}
		o.Timeout = true
	}
	ef.Close()
	m, _ := filepath.Glob(base + ".race.*")
	for _, f := range m {
		if data, err := os.ReadFile(f); err == nil {
			o.Races = append(o.Races, splitRaceReports(string(data))...)
		}
	}
	var res rig.Result
	if data, err := os.ReadFile(resPath); err == nil && json.Unmarshal(data, &res) == nil && res.Done {
		o.Result = &res
		return
	}
	stderr, _ := os.ReadFile(errPath)
	tail := string(stderr)
	if len(tail) > 3000 {
		tail = tail[len(tail)-3000:]
	}
	if o.Timeout {
		o.ExitErr = "synctest watchdog fired (hung bubble: inconclusive)"
		return
	}
	if strings.Contains(string(stderr), "github.com/fluffle/goirc/") && (strings.Contains(string(stderr), "panic: ") || strings.Contains(string(stderr), "fatal error: ")) {
		o.Crashes = append(o.Crashes, diagnoseCrash(string(stderr), "", b, werr))
	}
	o.ExitErr = fmt.Sprintf("synctest binary failed without a result: %v: %s", werr, tail)
}
