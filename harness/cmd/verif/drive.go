package main

import (
	"bufio"
	"crypto/sha1"
	"encoding/json"
	"flag"
	"fmt"
	"os"
	"os/exec"
	"path/filepath"
	"regexp"
	"runtime"
	"sort"
	"strings"
	"sync"
	"syscall"
	"time"

	"verif/harness/props"
	"verif/harness/rig"
)

func verifDir() string {
	if d := os.Getenv("VERIF_DIR"); d != "" {
		return d
	}
	return "/verif"
}

// outDir is where evidence and replay files go (VERIF_OUT, default the verif directory).
func outDir() string {
	if d := os.Getenv("VERIF_OUT"); d != "" {
		return d
	}
	return verifDir()
}

type batchOutcome struct {
	Batch    props.Batch
	Result   *rig.Result
	Crashes  []rig.Violation
	Timeout  bool
	ExitErr  string
	Races    []string
	Attempts int
	WallS    float64
	Cmd      string
}

type knownFinding struct {
	Prop, Sig, Text string
}

func loadKnown() []knownFinding {
	var out []knownFinding
	f, err := os.Open(filepath.Join(verifDir(), "KNOWN_FINDINGS.txt"))
	if err != nil {
		return nil
	}
	defer f.Close()
	sc := bufio.NewScanner(f)
	re := regexp.MustCompile(`^known:\s+property=(\S+)\s+sig=(\S+)\s*(.*)$`)
	for sc.Scan() {
		if m := re.FindStringSubmatch(strings.TrimSpace(sc.Text())); m != nil {
			out = append(out, knownFinding{m[1], m[2], m[3]})
		}
	}
	return out
}

func normSig(s string) string {
	return strings.Join(strings.Fields(s), "_")
}

func driveMain(args []string) int {
	if len(args) < 2 {
		usage()
	}
	id, tier := args[0], args[1]
	fs := flag.NewFlagSet("drive", flag.ExitOnError)
	bin := fs.String("bin", "", "worker binary (no race detector)")
	binRace := fs.String("binrace", "", "worker binary built with -race")
	binYield := fs.String("binyield", "", "worker binary built with -race against the schedule-perturbed copy of the library")
	only := fs.String("only", "", "batch/gen:idx — run only that case of that batch")
	runDir := fs.String("rundir", "", "scratch directory (created by ./check)")
	noEvidence := fs.Bool("no-evidence", false, "do not rewrite the evidence file")
	fs.Parse(args[2:])
	p := props.Registry[id]
	if p == nil {
		fmt.Fprintf(os.Stderr, "unknown property %s\n", id)
		return 64
	}
	if tier != "quick" && tier != "thorough" {
		fmt.Fprintf(os.Stderr, "tier must be quick or thorough\n")
		return 64
	}
	seed := envSeed()
	start := time.Now()
	if *runDir == "" {
		d, err := os.MkdirTemp("", "verif-run-")
		if err != nil {
			fmt.Fprintln(os.Stderr, err)
			return 70
		}
		defer os.RemoveAll(d)
		*runDir = d
	}

	batches := p.Plan(tier, seed)
	if p.Yield && os.Getenv("VERIF_NOYIELD") == "" {
		batches = append(batches, props.YieldPlan(tier, batches)...)
	}
	onlyBatch, onlyCase := "", ""
	if *only != "" {
		parts := strings.SplitN(*only, "/", 2)
		onlyBatch = parts[0]
		if len(parts) > 1 {
			onlyCase = parts[1]
		}
		var sel []props.Batch
		for _, b := range batches {
			if b.Name == onlyBatch {
				sel = append(sel, b)
			}
		}
		batches = sel
	}
	if len(batches) == 0 {
		fmt.Fprintf(os.Stderr, "no batches selected\n")
		return 64
	}

	jobs := runtime.NumCPU()
	if s := os.Getenv("VERIF_JOBS"); s != "" {
		fmt.Sscanf(s, "%d", &jobs)
	}
	if jobs < 1 {
		jobs = 1
	}
	sem := newWsem(jobs)
	outs := make([]*batchOutcome, len(batches))
	var wg sync.WaitGroup
	for i, b := range batches {
		wg.Add(1)
		w := b.Weight
		if w < 1 {
			w = 1
		}
		if w > jobs {
			w = jobs
		}
		go func(i int, b props.Batch, w int) {
			defer wg.Done()
			sem.acquire(w)
			defer sem.release(w)
			outs[i] = runBatch(id, tier, seed, b, *bin, *binRace, *binYield, *runDir, onlyCase)
		}(i, b, w)
	}
	wg.Wait()

	return conclude(p, id, tier, seed, outs, start, *noEvidence, *only != "")
}

// wsem is a weighted semaphore whose acquire takes all its slots at once
// (taking them one by one from a shared channel can deadlock).
type wsem struct {
	mu   sync.Mutex
	cond *sync.Cond
	free int
}

func newWsem(n int) *wsem {
	s := &wsem{free: n}
	s.cond = sync.NewCond(&s.mu)
	return s
}

func (s *wsem) acquire(w int) {
	s.mu.Lock()
	for s.free < w {
		s.cond.Wait()
	}
	s.free -= w
	s.mu.Unlock()
}

func (s *wsem) release(w int) {
	s.mu.Lock()
	s.free += w
	s.mu.Unlock()
	s.cond.Broadcast()
}

var caseRe = regexp.MustCompile(`^CASE (\S+)`)

func runBatch(id, tier string, seed int64, b props.Batch, bin, binRace, binYield, runDir, onlyCase string) *batchOutcome {
	o := &batchOutcome{Batch: b}
	t0 := time.Now()
	defer func() { o.WallS = time.Since(t0).Seconds() }()
	if b.Kind == "synctest" {
		runSynctest(o, id, tier, seed, b, runDir, onlyCase)
		return o
	}
	if b.Kind == "gofuzz" {
		runGoFuzz(o, id, tier, seed, b, runDir)
		return o
	}
	exe := bin
	if b.Race {
		exe = binRace
	}
	if b.Yield {
		if binYield == "" {
			o.ExitErr = "no binary built against the perturbed copy of the library (./check builds it)"
			return o
		}
		exe = binYield
	}
	bj, _ := json.Marshal(b)
	var skips []string
	timeout := time.Duration(b.TimeoutS) * time.Second
	if timeout == 0 {
		if tier == "quick" {
			timeout = 6 * time.Minute
		} else {
			timeout = 3 * time.Hour
		}
	}
	for attempt := 0; attempt < 12; attempt++ {
		o.Attempts = attempt + 1
		base := filepath.Join(runDir, fmt.Sprintf("%s.%s.%d", id, b.Name, attempt))
		resPath, jPath, errPath := base+".result.json", base+".journal", base+".stderr"
		args := []string{"worker", id, tier, "--batch", string(bj), "--result", resPath, "--journal", jPath, "--seed", fmt.Sprint(seed)}
		if onlyCase != "" {
			args = append(args, "--only", onlyCase)
		}
		if len(skips) > 0 {
			args = append(args, "--skip", strings.Join(skips, ","))
		}
		cmd := exec.Command(exe, args...)
		o.Cmd = exe + " " + strings.Join(args, " ")
		ef, _ := os.Create(errPath)
		cmd.Stdout = ef
		cmd.Stderr = ef
		env := os.Environ()
		if b.Procs > 0 {
			env = append(env, fmt.Sprintf("GOMAXPROCS=%d", b.Procs))
		}
		env = append(env, "GOTRACEBACK=all", "VERIF_RUNDIR="+runDir)
		if gd := b.Args["godebug"]; gd != "" {
			env = append(env, "GODEBUG="+gd) // (a batch that runs the library the way an older main module would)
		}
		if b.Yield {
			env = append(env, fmt.Sprintf("VERIF_YIELD=%d", uint64(seed)*1000003+uint64(len(b.Name))))
		}
		if b.Race {
			env = append(env, fmt.Sprintf("GORACE=halt_on_error=0 exitcode=0 history_size=3 log_path=%s.race", base))
		}
		cmd.Env = env
		if err := cmd.Start(); err != nil {
			ef.Close()
			o.ExitErr = err.Error()
			return o
		}
		done := make(chan error, 1)
		go func() { done <- cmd.Wait() }()
		var werr error
		select {
		case werr = <-done:
		case <-time.After(timeout):
			cmd.Process.Signal(syscall.SIGQUIT)
			select {
			case werr = <-done:
			case <-time.After(10 * time.Second):
				cmd.Process.Kill()
				werr = <-done
			}
			o.Timeout = true
		}
		ef.Close()
		// race reports
		if b.Race {
			m, _ := filepath.Glob(base + ".race.*")
			for _, f := range m {
				if data, err := os.ReadFile(f); err == nil {
					o.Races = append(o.Races, splitRaceReports(string(data))...)
				}
			}
		}
		var res rig.Result
		if data, err := os.ReadFile(resPath); err == nil && json.Unmarshal(data, &res) == nil && res.Done {
			o.Result = &res
			return o
		}
		if o.Timeout {
			o.ExitErr = "watchdog fired"
			return o
		}
		// crashed: diagnose
		stderr, _ := os.ReadFile(errPath)
		culprit := ""
		if jd, err := os.ReadFile(jPath); err == nil {
			lines := strings.Split(strings.TrimSpace(string(jd)), "\n")
			for i := len(lines) - 1; i >= 0; i-- {
				if m := caseRe.FindStringSubmatch(lines[i]); m != nil {
					culprit = m[1]
					o.Crashes = append(o.Crashes, diagnoseCrash(string(stderr), lines[i], b, werr))
					break
				}
			}
		}
		if culprit == "" {
			o.Crashes = append(o.Crashes, diagnoseCrash(string(stderr), "", b, werr))
			o.ExitErr = fmt.Sprintf("worker died outside any case: %v", werr)
			return o
		}
		if onlyCase != "" {
			return o
		}
		skips = append(skips, culprit)
	}
	o.ExitErr = "worker kept crashing; gave up after 12 culprits"
	return o
}

var (
	panicRe  = regexp.MustCompile(`(?m)^(panic: .*|fatal error: .*)$`)
	digitsRe = regexp.MustCompile(`\d+`)
	hexRe    = regexp.MustCompile(`0x[0-9a-f]+`)
)

// diagnoseCrash turns a dead worker's stderr into a violation.
func diagnoseCrash(stderr, journalLine string, b props.Batch, werr error) rig.Violation {
	msg := "unknown"
	if m := panicRe.FindString(stderr); m != "" {
		msg = m
	}
	// first goroutine block after the panic line is the panicking one
	libFunc, harness := "", false
	idx := strings.Index(stderr, msg)
	rest := stderr
	if idx >= 0 {
		rest = stderr[idx:]
	}
	if g := strings.Index(rest, "\ngoroutine "); g >= 0 {
		blk := rest[g+1:]
		if e := strings.Index(blk, "\n\n"); e >= 0 {
			blk = blk[:e]
		}
		for _, l := range strings.Split(blk, "\n") {
			if strings.HasPrefix(l, "\t") {
				continue
			}
			if strings.HasPrefix(l, "github.com/fluffle/goirc/") && libFunc == "" {
				f := l
				if i := strings.LastIndex(f, "("); i > 0 {
					f = f[:i]
				}
				libFunc = strings.TrimPrefix(f, "github.com/fluffle/goirc/")
			}
			if strings.HasPrefix(l, "verif/harness/") {
				harness = true
			}
		}
	}
	cls := hexRe.ReplaceAllString(msg, "0xN")
	cls = digitsRe.ReplaceAllString(cls, "N")
	if len(cls) > 120 {
		cls = cls[:120]
	}
	sig := "crash|" + libFunc + "|" + cls
	if libFunc == "" {
		if harness {
			sig = "harness-crash|" + cls
		} else {
			sig = "crash|?|" + cls
		}
	}
	tail := stderr
	if idx >= 0 {
		tail = stderr[idx:]
	}
	if len(tail) > 6000 {
		tail = tail[:6000]
	}
	c := ""
	if m := caseRe.FindStringSubmatch(journalLine); m != nil {
		c = m[1]
	}
	return rig.Violation{
		Sig:    normSig(sig),
		Detail: fmt.Sprintf("worker process died (%v): %s; case in flight: %s", werr, msg, journalLine),
		Case:   c,
		Witness: map[string]interface{}{
			"journal": journalLine, "trace": tail, "batch": b.Name,
		},
	}
}

func splitRaceReports(s string) []string {
	var out []string
	for _, blk := range strings.Split(s, "==================") {
		if strings.Contains(blk, "WARNING: DATA RACE") {
			out = append(out, strings.TrimSpace(blk))
		}
	}
	return out
}

var lineNoRe = regexp.MustCompile(`(\.go):\d+( \+0x[0-9a-f]+)?`)
var addrRe = regexp.MustCompile(`0x[0-9a-f]+`)
var goroNoRe = regexp.MustCompile(`goroutine \d+`)

// raceKey deduplicates a report: stacks with line numbers, addresses and goroutine ids stripped.
func raceKey(rep string) string {
	var fn []string
	for _, l := range strings.Split(rep, "\n") {
		l = strings.TrimSpace(l)
		if l == "" || strings.HasPrefix(l, "/") || strings.HasPrefix(l, "Goroutine") && false {
			continue
		}
		l = lineNoRe.ReplaceAllString(l, "$1")
		l = addrRe.ReplaceAllString(l, "")
		l = goroNoRe.ReplaceAllString(l, "goroutine")
		if strings.Contains(l, "(") && !strings.HasPrefix(l, "WARNING") {
			if i := strings.Index(l, "("); i > 0 && !strings.HasPrefix(l, "Previous") && !strings.HasPrefix(l, "Read at") && !strings.HasPrefix(l, "Write at") && !strings.HasPrefix(l, "Goroutine") {
				// function line: keep name only (strip args)
				if j := strings.LastIndex(l, "("); j > 0 {
					l = l[:j]
				}
			}
		}
		fn = append(fn, l)
	}
	h := sha1.Sum([]byte(strings.Join(fn, "\n")))
	return fmt.Sprintf("%x", h[:8])
}

func conclude(p *props.Property, id, tier string, seed int64, outs []*batchOutcome, start time.Time, noEvidence, partial bool) int {
	known := loadKnown()
	merged := rig.NewResult(id, "merged")
	var vios []rig.Violation
	var inconcl []string
	var cmds []string
	unclaimed := map[string]string{}
	claimedRaces := map[string]string{}
	exhaustive := map[string]bool{}
	exhaustiveFalse := map[string]bool{}
	attempts := 0
	for _, o := range outs {
		if o == nil {
			continue
		}
		attempts += o.Attempts
		if len(cmds) < 4 {
			cmds = append(cmds, o.Cmd)
		}
		for _, c := range o.Crashes {
			if strings.HasPrefix(c.Sig, "harness-crash") {
				inconcl = append(inconcl, fmt.Sprintf("batch %s: %s: %s", o.Batch.Name, c.Sig, c.Detail))
				continue
			}
			c.Case = o.Batch.Name + "/" + c.Case
			vios = append(vios, c)
		}
		if o.Result == nil {
			inconcl = append(inconcl, fmt.Sprintf("batch %s produced no result: %s", o.Batch.Name, o.ExitErr))
		} else {
			r := o.Result
			merged.Evaluations += r.Evaluations
			for k, v := range r.Classes {
				merged.Classes[k] += v
			}
			for k, v := range r.Counters {
				if strings.HasPrefix(k, "max_") {
					if merged.Counters[k] < v {
						merged.Counters[k] = v
					}
				} else {
					merged.Counters[k] += v
				}
			}
			for _, s := range r.Samples {
				if len(merged.Samples) < 8 {
					merged.Samples = append(merged.Samples, s)
				}
			}
			for _, v := range r.Violations {
				v.Case = o.Batch.Name + "/" + v.Case
				v.Sig = normSig(v.Sig)
				vios = append(vios, v)
			}
			for _, s := range r.Inconclusive {
				inconcl = append(inconcl, o.Batch.Name+": "+s)
			}
			for k, v := range r.Exhaustive {
				if v {
					exhaustive[k] = true
				} else {
					exhaustiveFalse[k] = true
				}
			}
			merged.Notes = append(merged.Notes, r.Notes...)
		}
		for _, rep := range o.Races {
			k := raceKey(rep)
			if p.RaceClaim != nil && p.RaceClaim(rep) {
				if _, ok := claimedRaces[k]; !ok {
					claimedRaces[k] = rep
					vios = append(vios, rig.Violation{
						Sig:     normSig("race|" + raceSummary(rep)),
						Detail:  "data race reported by the race detector in code this property claims race freedom for",
						Case:    o.Batch.Name + "/",
						Witness: rep,
					})
				}
			} else if _, ok := unclaimed[k]; !ok {
				unclaimed[k] = raceSummary(rep)
			}
		}
	}

	// classify violations
	type grp struct {
		v     rig.Violation
		count int
	}
	groups := map[string]*grp{}
	var order []string
	for _, v := range vios {
		g := groups[v.Sig]
		if g == nil {
			g = &grp{v: v}
			groups[v.Sig] = g
			order = append(order, v.Sig)
		}
		g.count++
	}
	sort.Strings(order)
	exit := 0
	newVios := 0
	knownHits := 0
	for _, sig := range order {
		g := groups[sig]
		isKnown := false
		for _, k := range known {
			if k.Prop == id && k.Sig == sig {
				fmt.Printf("KNOWN-FINDING: property=%s sig=%s %s (seen %d times this run)\n", id, sig, k.Text, g.count)
				isKnown = true
				knownHits++
				break
			}
		}
		if isKnown {
			continue
		}
		newVios++
		rp := writeReplay(id, tier, seed, g.v, g.count)
		fmt.Printf("VIOLATION property=%s replay=%s\n", id, rp)
		fmt.Printf("  sig=%s (x%d)\n  %s\n", sig, g.count, firstLines(g.v.Detail, 6))
		exit = 1
	}
	distinct := len(merged.Classes)
	if exit == 0 {
		if len(inconcl) > 0 {
			for i, s := range inconcl {
				if i < 10 {
					fmt.Printf("INCONCLUSIVE property=%s %s\n", id, firstLines(s, 3))
				}
			}
			exit = 2
		} else if !partial && (merged.Evaluations == 0 || distinct < p.MinClasses) {
			fmt.Printf("INCONCLUSIVE property=%s monitors observed too little: evaluations=%d distinct_nontrivial=%d (need >= %d)\n",
				id, merged.Evaluations, distinct, p.MinClasses)
			exit = 2
		}
	}

	wall := time.Since(start).Seconds()
	if !noEvidence && !partial {
		allEx := len(exhaustive) > 0 && len(exhaustiveFalse) == 0
		cov := map[string]interface{}{
			"evaluations":         merged.Evaluations,
			"distinct_nontrivial": distinct,
			"rule":                p.Rule,
			"samples":             merged.Samples,
			"counters":            merged.Counters,
			"classes_top":         topClasses(merged.Classes, 40),
			"batches":             len(outs),
			"worker_processes":    attempts,
			"commands":            cmds,
			"unclaimed_races":     sortedVals(unclaimed),
			"known_findings_seen": knownHits,
			"inconclusive":        len(inconcl),
		}
		if len(exhaustive) > 0 || len(exhaustiveFalse) > 0 {
			cov["exhaustive"] = allEx
			cov["exhaustive_generators"] = sortedKeys(exhaustive)
			if len(exhaustiveFalse) > 0 {
				cov["not_exhaustive_generators"] = sortedKeys(exhaustiveFalse)
			}
		}
		if len(merged.Samples) == 0 {
			cov["samples"] = []interface{}{"(no sample recorded)"}
		}
		if len(merged.Notes) > 0 {
			n := merged.Notes
			if len(n) > 20 {
				n = n[:20]
			}
			cov["notes"] = n
		}
		ev := map[string]interface{}{
			"property_id": id,
			"tier":        tier,
			"seed":        seed,
			"level":       p.Level,
			"coverage":    cov,
			"assumptions": p.Assumptions,
			"wall_s":      wall,
			"violations":  newVios,
			"verdict":     map[int]string{0: "held on what was observed", 1: "violated", 2: "inconclusive"}[exit],
		}
		b, _ := json.MarshalIndent(ev, "", " ")
		os.MkdirAll(filepath.Join(outDir(), "evidence"), 0o755)
		os.WriteFile(filepath.Join(outDir(), "evidence", id+".json"), append(b, '\n'), 0o644)
	}
	fmt.Printf("%s %s seed=%d: evaluations=%d distinct_nontrivial=%d violations=%d known=%d inconclusive=%d unclaimed_races=%d wall=%.1fs -> exit %d\n",
		id, tier, seed, merged.Evaluations, distinct, newVios, knownHits, len(inconcl), len(unclaimed), wall, exit)
	return exit
}

func firstLines(s string, n int) string {
	l := strings.Split(s, "\n")
	if len(l) > n {
		l = append(l[:n], "…")
	}
	return strings.Join(l, "\n  ")
}

func sortedKeys(m map[string]bool) []string {
	var out []string
	for k := range m {
		out = append(out, k)
	}
	sort.Strings(out)
	return out
}

func sortedVals(m map[string]string) []string {
	out := []string{}
	for _, v := range m {
		out = append(out, v)
	}
	sort.Strings(out)
	return out
}

func topClasses(m map[string]int64, n int) map[string]int64 {
	type kv struct {
		k string
		v int64
	}
	var l []kv
	for k, v := range m {
		l = append(l, kv{k, v})
	}
	sort.Slice(l, func(i, j int) bool {
		if l[i].v != l[j].v {
			return l[i].v > l[j].v
		}
		return l[i].k < l[j].k
	})
	out := map[string]int64{}
	for i, e := range l {
		if i >= n {
			break
		}
		out[e.k] = e.v
	}
	return out
}

// raceSummary names the two innermost functions of a report.
func raceSummary(rep string) string {
	var fns []string
	lines := strings.Split(rep, "\n")
	for i, l := range lines {
		t := strings.TrimSpace(l)
		if strings.HasPrefix(t, "Read at") || strings.HasPrefix(t, "Write at") || strings.HasPrefix(t, "Previous read at") || strings.HasPrefix(t, "Previous write at") {
			if i+1 < len(lines) {
				f := strings.TrimSpace(lines[i+1])
				if j := strings.LastIndex(f, "("); j > 0 {
					f = f[:j]
				}
				fns = append(fns, f)
			}
		}
	}
	sort.Strings(fns)
	return strings.Join(fns, "~")
}

func writeReplay(id, tier string, seed int64, v rig.Violation, count int) string {
	dir := filepath.Join(outDir(), "replays", id)
	os.MkdirAll(dir, 0o755)
	h := sha1.Sum([]byte(v.Sig))
	path := filepath.Join(dir, fmt.Sprintf("%x.json", h[:6]))
	rep := map[string]interface{}{
		"property": id, "tier": tier, "seed": seed, "sig": v.Sig,
		"case": v.Case, "detail": v.Detail, "witness": v.Witness, "count_this_run": count,
		"how": fmt.Sprintf("VERIF_SEED=%d ./check %s --replay %s", seed, id, path),
	}
	b, _ := json.MarshalIndent(rep, "", " ")
	os.WriteFile(path, append(b, '\n'), 0o644)
	return path
}

func replayMain(args []string) int {
	if len(args) < 1 {
		usage()
	}
	data, err := os.ReadFile(args[0])
	if err != nil {
		fmt.Fprintln(os.Stderr, err)
		return 66
	}
	var rep struct {
		Property, Tier, Case string
		Seed                 int64
	}
	if err := json.Unmarshal(data, &rep); err != nil {
		fmt.Fprintln(os.Stderr, err)
		return 65
	}
	os.Setenv("VERIF_SEED", fmt.Sprint(rep.Seed))
	a := []string{rep.Property, rep.Tier, "--only", rep.Case, "--no-evidence"}
	a = append(a, args[1:]...)
	return driveMain(a)
}
