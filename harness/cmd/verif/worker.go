package main

import (
	"encoding/json"
	"flag"
	"fmt"
	"os"
	"strconv"
	"strings"
	"syscall"
	"time"

	"verif/harness/props"
	"verif/harness/rig"
)

func envSeed() int64 {
	if s := os.Getenv("VERIF_SEED"); s != "" {
		if n, err := strconv.ParseInt(s, 10, 64); err == nil {
			return n
		}
	}
	return 1
}

func workerMain(args []string) int {
	if len(args) < 2 {
		usage()
	}
	id, tier := args[0], args[1]
	fs := flag.NewFlagSet("worker", flag.ExitOnError)
	batchJSON := fs.String("batch", "{}", "batch description (JSON)")
	resPath := fs.String("result", "", "result file")
	jPath := fs.String("journal", "", "journal file")
	only := fs.String("only", "", "run only this case (gen:idx)")
	skip := fs.String("skip", "", "comma-separated cases to skip")
	seed := fs.Int64("seed", envSeed(), "seed")
	fs.Parse(args[2:])

	p := props.Registry[id]
	if p == nil {
		fmt.Fprintf(os.Stderr, "unknown property %s\n", id)
		return 64
	}
	var b props.Batch
	if err := json.Unmarshal([]byte(*batchJSON), &b); err != nil {
		fmt.Fprintf(os.Stderr, "bad batch: %v\n", err)
		return 64
	}
	if !b.Race {
		// a hard address-space limit for workers without the race detector (its shadow memory needs terabytes of
		// address space): a library loop that allocates without bound then dies with a runtime fatal error whose
		// trace names it, instead of eating the machine
		lim := uint64(8 << 30)
		syscall.Setrlimit(syscall.RLIMIT_AS, &syscall.Rlimit{Cur: lim, Max: lim})
	}
	r := rig.NewResult(id, b.Name)
	j := rig.OpenJournal(*jPath)
	defer j.Close()
	c := &props.Ctx{Prop: id, Tier: tier, Seed: *seed, Batch: b, Only: *only, R: r, J: j}
	if *skip != "" {
		c.Skip = map[string]bool{}
		for _, s := range strings.Split(*skip, ",") {
			c.Skip[s] = true
		}
	}
	c.Finish = func() {
		r.Done = true
		if *resPath != "" {
			r.Write(*resPath)
		}
		os.Exit(0)
	}
	// watchdog: a library call (or a library goroutine the harness waits for) that computes forever
	go spinWatchdog(r, j, resPath)
	p.Run(c)
	if b.Yield {
		if !rig.YieldBuild {
			r.Inconclusive = append(r.Inconclusive, "a perturbed batch was handed to a binary built against the unperturbed library")
		}
		for k, v := range rig.YieldStats() {
			if k == "yield_sites" || k == "yield_sites_reached" || k == "yield_sites_fired" {
				r.Max("max_"+k, v)
			} else {
				r.Count(k, v)
			}
		}
		if rig.YieldBuild && rig.YieldStats()["yield_fired"] == 0 {
			r.Inconclusive = append(r.Inconclusive, "no yield point fired in a perturbed batch")
		}
	}
	r.Done = true
	if *resPath != "" {
		if err := r.Write(*resPath); err != nil {
			fmt.Fprintf(os.Stderr, "write result: %v\n", err)
			return 70
		}
	} else {
		b, _ := json.MarshalIndent(r, "", " ")
		fmt.Println(string(b))
	}
	return 0
}

// spinWatchdog is excluded from dead-state proofs by its name (rig.ProveDead skips goroutines running it).
func spinWatchdog(r *rig.Result, j *rig.Journal, resPath *string) {
	{
		last, since := rig.CallTicks(), time.Now()
		for {
			time.Sleep(2 * time.Second)
			now := rig.CallTicks()
			if now != last || now == 0 {
				last, since = now, time.Now()
				continue
			}
			if time.Since(since) < 10*time.Second {
				continue
			}
			sp := rig.ProveSpin(8, 5*time.Second, func() bool { return rig.CallTicks() == now })
			if !sp.Spinning {
				since = time.Now()
				continue
			}
			caseID := ""
			if f := strings.Fields(j.Last()); len(f) > 1 && f[0] == "CASE" {
				caseID = f[1]
			}
			r.Violate(rig.Violation{
				Sig:     "busy-loop|" + sp.Func,
				Detail:  fmt.Sprintf("a goroutine has been computing inside %s for %v of CPU time without the harness seeing any I/O or call complete (non-terminating library code); case in flight: %s", sp.Func, sp.CPU.Round(time.Second), j.Last()),
				Case:    caseID,
				Witness: map[string]interface{}{"stack": sp.Dump, "journal": j.Last()},
			})
			r.Done = true
			if *resPath != "" {
				r.Write(*resPath)
			}
			os.Exit(0)
		}
	}
}
