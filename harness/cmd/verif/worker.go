package main

import (
	"encoding/json"
	"flag"
	"fmt"
	"os"
	"strconv"
	"strings"

	"verif/harness/props"
	"verif/harness/rig"
)

func envSeed() int64 {
	if s := os.Getenv("VERIF_SEED"); s != "" {
		if n, err := strconv.ParseInt(s, 10, 64); err == nil {
			return n
		}
	}
	return 1
}

func workerMain(args []string) int {
	if len(args) < 2 {
		usage()
	}
	id, tier := args[0], args[1]
	fs := flag.NewFlagSet("worker", flag.ExitOnError)
	batchJSON := fs.String("batch", "{}", "batch description (JSON)")
	resPath := fs.String("result", "", "result file")
	jPath := fs.String("journal", "", "journal file")
	only := fs.String("only", "", "run only this case (gen:idx)")
	skip := fs.String("skip", "", "comma-separated cases to skip")
	seed := fs.Int64("seed", envSeed(), "seed")
	fs.Parse(args[2:])

	p := props.Registry[id]
	if p == nil {
		fmt.Fprintf(os.Stderr, "unknown property %s\n", id)
		return 64
	}
	var b props.Batch
	if err := json.Unmarshal([]byte(*batchJSON), &b); err != nil {
		fmt.Fprintf(os.Stderr, "bad batch: %v\n", err)
		return 64
	}
	r := rig.NewResult(id, b.Name)
	j := rig.OpenJournal(*jPath)
	defer j.Close()
	c := &props.Ctx{Prop: id, Tier: tier, Seed: *seed, Batch: b, Only: *only, R: r, J: j}
	if *skip != "" {
		c.Skip = map[string]bool{}
		for _, s := range strings.Split(*skip, ",") {
			c.Skip[s] = true
		}
	}
	p.Run(c)
	r.Done = true
	if *resPath != "" {
		if err := r.Write(*resPath); err != nil {
			fmt.Fprintf(os.Stderr, "write result: %v\n", err)
			return 70
		}
	} else {
		b, _ := json.MarshalIndent(r, "", " ")
		fmt.Println(string(b))
	}
	return 0
}
