//go:build go1.25

package synct

import (
	"encoding/json"
	"fmt"
	"os"
	"strconv"
	"strings"
	"testing"
	"testing/synctest"
	"time"

	"github.com/fluffle/goirc/client"

	"verif/harness/rig"
)

type batch struct {
	Name string            `json:"name"`
	Args map[string]string `json:"args"`
}

type env struct {
	R     *rig.Result
	Tier  string
	Seed  int64
	Only  string
	Batch batch
	out   string
}

func loadEnv(t *testing.T, prop string) *env {
	e := &env{Tier: os.Getenv("VERIF_TIER"), Only: os.Getenv("VERIF_ONLY"), out: os.Getenv("VERIF_RESULT")}
	if e.Tier == "" {
		e.Tier = "quick"
	}
	e.Seed = 1
	if s := os.Getenv("VERIF_SEED"); s != "" {
		e.Seed, _ = strconv.ParseInt(s, 10, 64)
	}
	json.Unmarshal([]byte(os.Getenv("VERIF_BATCH")), &e.Batch)
	e.R = rig.NewResult(prop, e.Batch.Name)
	return e
}

func (e *env) finish(t *testing.T) {
	e.R.Done = true
	if e.out != "" {
		if err := e.R.Write(e.out); err != nil {
			t.Fatal(err)
		}
	} else {
		b, _ := json.MarshalIndent(e.R, "", " ")
		t.Log(string(b))
		if len(e.R.Violations) > 0 {
			t.Fail()
		}
	}
}

func (e *env) want(gen string, idx int) bool {
	return e.Only == "" || e.Only == fmt.Sprintf("%s:%d", gen, idx)
}

func (e *env) pick(q, th int) int {
	if e.Tier == "thorough" {
		return th
	}
	return q
}

func (e *env) argInt(k string, def int) int {
	if v, ok := e.Batch.Args[k]; ok {
		if n, err := strconv.Atoi(v); err == nil {
			return n
		}
	}
	return def
}

// newClient builds a client on an in-memory endpoint (inside the bubble).
func newClient(flood bool, pingFreq time.Duration) (*client.Conn, *rig.Endpoint) {
	ep := rig.NewEndpoint(nil)
	cfg := client.NewConfig("me", "ident", "Real Name")
	cfg.Server = "irc.test"
	cfg.Proxy = ep.ProxyURL(false)
	cfg.Flood = flood
	cfg.PingFreq = pingFreq
	return client.Client(cfg), ep
}

// ---------------------------------------------------------------------------
// C10: flood protection follows Hybrid's penalty rule
// ---------------------------------------------------------------------------

type c10Step struct {
	Gap   time.Duration
	Len   int
	Flood int // -1 keep, 0 set false, 1 set true (applied before the line, when the sender is idle)
	Ping  bool // the line is the PONG the client owes to a server PING (sent when the sender is idle)
}

var c10Gaps = []time.Duration{0, 0, 0, time.Millisecond, 500 * time.Millisecond, 2 * time.Second, 5 * time.Second, 9990 * time.Millisecond, 10 * time.Second, 15 * time.Second, 60 * time.Second, 600 * time.Second}

type ival struct{ lo, hi time.Duration }

func TestC10(t *testing.T) {
	e := loadEnv(t, "C10")
	defer e.finish(t)
	part, parts := e.argInt("part", 0), e.argInt("parts", 1)
	total := e.pick(2400, 240000)
	per := total / parts
	for i := 0; i < per; i++ {
		idx := part*per + i
		if !e.want("seq", idx) {
			continue
		}
		r := rig.Rand(e.Seed, "C10", idx)
		n := 5 + r.Intn(60)
		if r.Intn(10) == 0 {
			n = 100 + r.Intn(100)
		}
		burstiness := r.Intn(3) // 0: mostly back-to-back, 1: mixed, 2: mostly idle
		var steps []c10Step
		for k := 0; k < n; k++ {
			var g time.Duration
			switch burstiness {
			case 0:
				if r.Intn(6) == 0 {
					g = c10Gaps[r.Intn(len(c10Gaps))]
				}
			case 1:
				g = c10Gaps[r.Intn(len(c10Gaps))]
			default:
				g = c10Gaps[3+r.Intn(len(c10Gaps)-3)]
			}
			l := []int{0, 1, 10, 60, 119, 120, 121, 255, 400, 509, 510}[r.Intn(11)]
			if r.Intn(3) == 0 {
				l = r.Intn(511)
			}
			fl := -1
			if r.Intn(25) == 0 {
				fl = r.Intn(2)
			}
			steps = append(steps, c10Step{g, l, fl, r.Intn(8) == 0})
		}
		c10Run(t, e, idx, steps)
		if len(e.R.Violations) > 20 {
			return
		}
	}
}

func c10Run(t *testing.T, e *env, idx int, steps []c10Step) {
	type issued struct {
		at    time.Time
		n     int
		flood bool
	}
	var iss []issued
	var writes []rig.WriteRec
	var lines []string
	var created time.Time
	hung := true
	synctest.Test(t, func(t *testing.T) {
		conn, ep := newClient(false, 0)
		// every third sequence starts with capability negotiation switched on: its lines are outgoing lines like
		// any others (the server of these sequences never answers them)
		conn.Config().EnableCapabilityNegotiation = idx%3 == 2
		// Config.Timeout is no part of the flood arithmetic: short ones (below one line's charge, below the longest
		// hold), none at all and the default must all give the same timestamps
		conn.Config().Timeout = []time.Duration{time.Minute, 0, 500 * time.Millisecond, 3 * time.Second, time.Minute, 5 * time.Second}[idx%6]
		created = time.Now()
		if err := conn.Connect(); err != nil {
			e.R.Inconcl("connect: " + err.Error())
			hung = false
			return
		}
		mc := ep.Last()
		// registration lines are part of the sequence (2 or 3 lines charged at connect time)
		synctest.Wait()
		for waited := 0; mc.NumLines() < 2 && waited < 1000; waited++ {
			time.Sleep(time.Second)
		}
		regLines := mc.Lines()
		for _, l := range regLines {
			iss = append(iss, issued{created, len(l), false})
		}
		count := len(regLines)
		flood := false
		for _, st := range steps {
			if st.Gap > 0 {
				time.Sleep(st.Gap)
			}
			if st.Flood >= 0 {
				// toggle only when the sender is idle, so the toggle is ordered before the next line
				for waited := 0; mc.NumLines() < count && waited < 100000; waited++ {
					time.Sleep(time.Second)
				}
				synctest.Wait()
				flood = st.Flood == 1
				conn.Config().Flood = flood
			}
			line := "X" + strings.Repeat("y", max(st.Len-1, 0))
			if st.Len == 0 {
				line = ""
			}
			if st.Len >= 8 && st.Len%3 == 0 {
				// the same number of bytes made of multi-byte characters (the charge is per byte of the line)
				unit := []string{"é", "日", "😀"}[st.Len%9/3]
				line = strings.Repeat(unit, st.Len/len(unit))
				line += strings.Repeat("z", st.Len-len(line))
			}
			if st.Ping {
				// a server PING: its PONG is an outgoing line like any other. It is requested when the sender is idle
				// (so that it is ordered before the lines that follow), which leaves the penalty where the burst put it
				for waited := 0; mc.NumLines() < count && waited < 100000; waited++ {
					time.Sleep(time.Second)
				}
				synctest.Wait()
				tok := "t" + strings.Repeat("k", max(st.Len-7, 0))
				iss = append(iss, issued{time.Now(), len("PONG :" + tok), flood})
				mc.SendLine("PING :" + tok)
				synctest.Wait()
				count++
				continue
			}
			iss = append(iss, issued{time.Now(), len(line), flood})
			conn.Raw(line)
			count++
		}
		// wait until everything is on the wire, then tear down while the sender is idle
		for waited := 0; mc.NumLines() < count && waited < 1000000; waited++ {
			time.Sleep(time.Second)
		}
		synctest.Wait()
		writes = mc.Writes()
		lines = mc.Lines()
		// let any sleep the sender may still be in run out before tearing down (a Close that overlaps a
		// sleeping sender parks runLoop on a mutex, which freezes the bubble's clock: an artifact, not a bug)
		time.Sleep(30 * time.Second)
		synctest.Wait()
		conn.Close()
		ep.Release()
		hung = false
	})
	if hung {
		e.R.Inconcl(fmt.Sprintf("seq:%d bubble did not finish", idx))
		return
	}
	e.R.Eval(1)
	if len(lines) < len(iss) {
		// the bubble waited a million virtual seconds for them: a line that is held back is written afterwards
		e.R.Violate(rig.Violation{Sig: "c10|line-never-written", Detail: fmt.Sprintf("%d lines were issued to a flood-protected client, only %d were ever written (a held line is delayed, not dropped)", len(iss), len(lines)), Case: fmt.Sprintf("seq:%d", idx)})
		return
	}
	if len(writes) != len(iss) || len(lines) != len(iss) {
		e.R.Inconcl(fmt.Sprintf("seq:%d: %d writes / %d lines for %d issued lines", idx, len(writes), len(lines), len(iss)))
		return
	}
	// reference model in interval arithmetic
	const slack = time.Microsecond
	B := ival{0, 0}
	L := created
	prevDone := created
	heldN, freeN, crossUp, crossDown, floored := 0, 0, 0, 0, 0
	wasAbove := false
	var desc []string
	for k, is := range iss {
		tk := is.at
		if prevDone.After(tk) {
			tk = prevDone
		}
		w := writes[k].T
		if is.flood {
			// neither charged nor delayed
			if w.Sub(tk) > slack || tk.Sub(w) > slack {
				e.R.Violate(rig.Violation{Sig: "c10|delayed-with-flood-set", Detail: fmt.Sprintf("seq %d line %d (len %d) was written %v after it could be, with Flood set", idx, k, is.n, w.Sub(tk)), Case: fmt.Sprintf("seq:%d", idx)})
				return
			}
			prevDone = w
			continue
		}
		cLo := 2*time.Second + time.Duration(is.n)*time.Second/120
		cHi := 2*time.Second + time.Duration(is.n+2)*time.Second/120 + slack
		el := tk.Sub(L)
		nb := ival{B.lo + cLo - el - slack, B.hi + cHi - el + slack}
		if nb.hi < 0 {
			nb.hi = 0
		}
		if nb.lo < 0 {
			nb.lo = 0
			floored++
		}
		B = nb
		L = tk
		mustHold := B.lo > 10*time.Second
		mayHold := B.hi > 10*time.Second
		delay := w.Sub(tk)
		held := delay > slack
		switch {
		case held && !mayHold:
			e.R.Violate(rig.Violation{Sig: "c10|held-below-threshold", Detail: fmt.Sprintf("seq %d line %d (len %d): held back %v although the penalty is at most %v (<= 10 s)", idx, k, is.n, delay, B.hi), Case: fmt.Sprintf("seq:%d", idx), Witness: desc})
			return
		case !held && mustHold:
			e.R.Violate(rig.Violation{Sig: "c10|not-held-above-threshold", Detail: fmt.Sprintf("seq %d line %d (len %d): written at once although the penalty is at least %v (> 10 s)", idx, k, is.n, B.lo), Case: fmt.Sprintf("seq:%d", idx), Witness: desc})
			return
		case held && (delay < cLo-slack || delay > cHi+slack):
			e.R.Violate(rig.Violation{Sig: "c10|wrong-hold-time", Detail: fmt.Sprintf("seq %d line %d (len %d): held back %v, its own charge is %v..%v", idx, k, is.n, delay, cLo, cHi), Case: fmt.Sprintf("seq:%d", idx), Witness: desc})
			return
		}
		if held {
			heldN++
			if !wasAbove {
				crossUp++
			}
			wasAbove = true
		} else {
			freeN++
			if wasAbove {
				crossDown++
			}
			wasAbove = false
		}
		prevDone = w
		if len(desc) < 40 {
			desc = append(desc, fmt.Sprintf("#%d len=%d issue=+%v write=+%v B=[%v,%v]", k, is.n, is.at.Sub(created), w.Sub(created), B.lo, B.hi))
		}
	}
	// the window bound, as stated, inside maximal runs of flood-protected lines
	for a := 0; a < len(iss); a++ {
		if iss[a].flood {
			continue
		}
		var sum time.Duration
		var maxC time.Duration
		for b := a; b < len(iss) && !iss[b].flood; b++ {
			c := 2*time.Second + time.Duration(iss[b].n)*time.Second/120
			sum += c
			if c > maxC {
				maxC = c
			}
			span := writes[b].T.Sub(writes[a].T)
			if sum > span+10*time.Second+2*maxC+time.Millisecond {
				e.R.Violate(rig.Violation{Sig: "c10|window-bound", Detail: fmt.Sprintf("seq %d lines %d..%d: charges %v exceed elapsed %v + 10 s + two charges (%v)", idx, a, b, sum, span, 2*maxC), Case: fmt.Sprintf("seq:%d", idx)})
				return
			}
		}
	}
	e.R.Count("lines", int64(len(iss)))
	e.R.Count("lines_held", int64(heldN))
	e.R.Count("lines_not_held", int64(freeN))
	if crossUp > 0 && crossDown > 0 && floored > 0 {
		e.R.Count("sequences_crossing_threshold_both_ways_and_flooring", 1)
		e.R.Class(fmt.Sprintf("up=%d|down=%d|floor=%d|held=%d|n=%d", min(crossUp, 3), min(crossDown, 3), min(floored, 3), min(heldN/5, 6), min(len(iss)/20, 6)))
	}
	if idx%401 == 0 && len(desc) > 0 {
		e.R.Sample(map[string]interface{}{"sequence_head": desc[:min(len(desc), 8)], "lines": len(iss), "held": heldN})
	}
}

// ---------------------------------------------------------------------------
// C18: client pings happen exactly when PingFreq is positive
// ---------------------------------------------------------------------------

func TestC18Pings(t *testing.T) {
	e := loadEnv(t, "C18")
	defer e.finish(t)
	freqs := []time.Duration{-time.Second, 0, time.Second, 30 * time.Second, 3 * time.Minute, 7 * time.Second, 250 * time.Millisecond}
	spans := []time.Duration{time.Hour, 10 * time.Minute, 90 * time.Second, 3*time.Minute + time.Millisecond}
	idx := 0
	for _, f := range freqs {
		for _, span := range spans {
			if f > 0 && span/f > 5000 {
				span = 5000 * f
			}
			if !e.want("pings", idx) {
				idx++
				continue
			}
			var stamps []time.Duration
			var others int
			hung := true
			synctest.Test(t, func(t *testing.T) {
				conn, ep := newClient(true, f)
				if err := conn.Connect(); err != nil {
					e.R.Inconcl("connect: " + err.Error())
					hung = false
					return
				}
				t0 := time.Now()
				mc := ep.Last()
				if idx%2 == 1 && f > 0 {
					// the server keeps talking, with gaps shorter than PingFreq: the keep-alive must not depend on silence
					gap := f / 3
					for el := time.Duration(0); el+gap <= span; el += gap {
						time.Sleep(gap)
						mc.SendLine(":srv NOTICE me :chatter")
					}
					time.Sleep(span - (span/gap)*gap)
				} else {
					time.Sleep(span)
				}
				synctest.Wait()
				ws := mc.Writes()
				ls := mc.Lines()
				for i, l := range ls {
					if strings.HasPrefix(l, "PING ") && i < len(ws) {
						stamps = append(stamps, ws[i].T.Sub(t0))
					} else {
						others++
					}
				}
				conn.Close()
				ep.Release()
				hung = false
			})
			if hung {
				e.R.Inconcl(fmt.Sprintf("pings:%d bubble did not finish", idx))
				idx++
				continue
			}
			e.R.Eval(1)
			want := 0
			if f > 0 {
				want = int(span / f)
				if span%f == 0 {
					// a tick due exactly at the end of the span may or may not have been written yet
				}
			}
			bad := ""
			if f <= 0 && len(stamps) != 0 {
				bad = fmt.Sprintf("%d client PINGs in %v with PingFreq %v", len(stamps), span, f)
			}
			if f > 0 {
				if len(stamps) != want && !(span%f == 0 && len(stamps) == want-1) {
					bad = fmt.Sprintf("%d client PINGs in %v with PingFreq %v, want %d", len(stamps), span, f, want)
				} else {
					for k, s := range stamps {
						if d := s - time.Duration(k+1)*f; d < -time.Millisecond || d > time.Millisecond {
							bad = fmt.Sprintf("client PING #%d at +%v, want +%v (PingFreq %v)", k+1, s, time.Duration(k+1)*f, f)
							break
						}
					}
				}
			}
			if bad != "" {
				e.R.Violate(rig.Violation{Sig: "c18|client-pings", Detail: bad, Case: fmt.Sprintf("pings:%d", idx)})
			}
			e.R.Class(fmt.Sprintf("pingfreq=%v|span=%v|server-chatter=%v", f, span, idx%2 == 1 && f > 0))
			e.R.Count("client_pings_observed", int64(len(stamps)))
			if idx%5 == 0 {
				e.R.Sample(map[string]interface{}{"pingfreq": f.String(), "virtual_span": span.String(), "pings": len(stamps), "first": fmt.Sprint(stamps[:min(3, len(stamps))])})
			}
			idx++
		}
	}
}

// ---------------------------------------------------------------------------
// C03 / C05 with handlers that take seconds to hours of virtual time
// ---------------------------------------------------------------------------

func TestC03SlowHandlers(t *testing.T) { slowHandlers(t, "C03") }
func TestC05SlowHandlers(t *testing.T) { slowHandlers(t, "C05") }

func slowHandlers(t *testing.T, prop string) {
	e := loadEnv(t, prop)
	defer e.finish(t)
	total := e.pick(40, 400)
	durs := []time.Duration{0, time.Millisecond, time.Second, 1900 * time.Millisecond, 2100 * time.Millisecond, 5 * time.Second, 31 * time.Second, time.Minute, 10 * time.Minute, time.Hour}
	for idx := 0; idx < total; idx++ {
		if !e.want("slow", idx) {
			continue
		}
		r := rig.Rand(e.Seed, prop, "slow", idx)
		nLines := 8 + r.Intn(20)
		type rec struct {
			kind         string // E enter, X exit
			n            int
			at           time.Duration
			before, after int // members of #c seen by the tracker at entry and at exit (foreground)
		}
		var log []rec
		discSeen := false
		// NB: a hang-up while a slow handler runs cannot be played in a bubble — the connection's context watcher then
		// parks on conn.mu (held by the closing goroutine, which waits for the handler), and a goroutine parked on a
		// sync.Mutex is not "durably blocked", so the bubble's clock would freeze. That case runs in real time in C03
		// (sessions with a small Config.Timeout and handlers that outlast it).
		eofMidway := false
		if eofMidway && nLines > 20 {
			nLines = 20
		}
		var mu chan struct{} = make(chan struct{}, 1)
		mu <- struct{}{}
		hung := true
		var maxDur time.Duration
		synctest.Test(t, func(t *testing.T) {
			conn, ep := newClient(true, 0)
			conn.EnableStateTracking()
			st := conn.StateTracker()
			t0 := time.Now()
			members := func() int {
				if ch := st.GetChannel("#c"); ch != nil {
					return len(ch.Nicks)
				}
				return 0
			}
			mk := func(bg bool) client.HandlerFunc {
				return func(_ *client.Conn, l *client.Line) {
					if !strings.HasPrefix(l.Nick, "n") {
						return
					}
					n, err := strconv.Atoi(l.Nick[1:])
					if err != nil {
						return
					}
					d := durs[rig.Rand(e.Seed, prop, "slowd", idx, n, bg).Intn(len(durs))]
					if bg {
						d = durs[rig.Rand(e.Seed, prop, "slowd", idx, n, bg).Intn(3)]
					}
					before := members()
					<-mu
					if d > maxDur {
						maxDur = d
					}
					kind := "E"
					if bg {
						kind = "BE"
					}
					log = append(log, rec{kind: kind, n: n, at: time.Since(t0), before: before})
					mu <- struct{}{}
					if d > 0 {
						time.Sleep(d)
					}
					after := members()
					<-mu
					kind = "X"
					if bg {
						kind = "BX"
					}
					log = append(log, rec{kind: kind, n: n, at: time.Since(t0), before: before, after: after})
					mu <- struct{}{}
				}
			}
			nh := 1 + r.Intn(3)
			for k := 0; k < nh; k++ {
				conn.HandleFunc("JOIN", mk(false))
			}
			conn.HandleBG("JOIN", mk(true))
			conn.HandleFunc(client.DISCONNECTED, func(_ *client.Conn, l *client.Line) {
				<-mu
				log = append(log, rec{kind: "DE", at: time.Since(t0)})
				discSeen = true
				mu <- struct{}{}
			})
			if err := conn.Connect(); err != nil {
				e.R.Inconcl("connect: " + err.Error())
				hung = false
				return
			}
			mc := ep.Last()
			mc.SendLine(":me!ident@host JOIN #c")
			for n := 1; n <= nLines; n++ {
				mc.SendLine(fmt.Sprintf(":n%d!i@h JOIN #c", n))
			}
			if eofMidway {
				mc.SendEOF()
			}
			// everything is queued; let virtual time run until all handlers are done
			for waited := 0; waited < 100000; waited++ {
				synctest.Wait()
				<-mu
				exits, enters := 0, 0
				for _, x := range log {
					if x.kind == "X" || x.kind == "BX" {
						exits++
					}
					if x.kind == "E" || x.kind == "BE" {
						enters++
					}
				}
				ds := discSeen
				mu <- struct{}{}
				if exits >= nLines*(nh+1) || (eofMidway && ds && exits == enters) {
					break
				}
				time.Sleep(time.Minute)
			}
			time.Sleep(time.Second)
			synctest.Wait()
			conn.Close()
			ep.Release()
			hung = false
		})
		if hung {
			e.R.Inconcl(fmt.Sprintf("slow:%d bubble did not finish", idx))
			continue
		}
		e.R.Eval(1)
		// oracle: one line at a time (foreground), and the tracker shows exactly line n (n+1 members incl. me) throughout
		open := map[int]int{}
		bad := ""
		var discAt time.Duration
		for _, x := range log {
			switch x.kind {
			case "E":
				if discAt != 0 {
					bad = fmt.Sprintf("a foreground handler of line %d entered at +%v, after DISCONNECTED had been delivered at +%v", x.n, x.at, discAt)
				}
				for other, cnt := range open {
					if other != x.n && cnt > 0 {
						bad = fmt.Sprintf("foreground handler for line %d entered at +%v while a handler of line %d was still running", x.n, x.at, other)
					}
				}
				open[x.n]++
				if prop == "C05" && x.before != x.n+1 {
					bad = fmt.Sprintf("at the entry of a foreground handler for line %d the tracker showed %d members, want %d", x.n, x.before, x.n+1)
				}
			case "X":
				open[x.n]--
				if prop == "C05" && x.after != x.n+1 {
					bad = fmt.Sprintf("at the end of a foreground handler for line %d that ran for virtual %v the tracker showed %d members, want %d (a later line was applied while it ran)", x.n, x.at, x.after, x.n+1)
				}
			case "DE":
				for other, cnt := range open {
					if cnt > 0 {
						bad = fmt.Sprintf("DISCONNECTED was delivered at +%v while a foreground handler of line %d was still running", x.at, other)
					}
				}
				discAt = x.at
			case "BE":
				if prop == "C05" && x.before < x.n+1 {
					bad = fmt.Sprintf("a background handler for line %d saw %d members, the line itself makes it %d", x.n, x.before, x.n+1)
				}
			}
			if bad != "" {
				break
			}
		}
		if bad != "" {
			sig := "c03|slow-handler-overlap"
			if strings.Contains(bad, "DISCONNECTED") {
				sig = "c03|slow-handler-disconnected"
			}
			if prop == "C05" && !strings.Contains(bad, "DISCONNECTED") {
				sig = "c05|slow-handler-tracker"
				if strings.Contains(bad, "entered at") {
					sig = "c05|slow-handler-overlap"
				}
			}
			e.R.Violate(rig.Violation{Sig: sig, Detail: bad, Case: fmt.Sprintf("slow:%d", idx)})
		}
		e.R.Class(fmt.Sprintf("slow|maxdur=%v|lines=%d|eof-midway=%v", maxDur, nLines/8, eofMidway))
		e.R.Count("slow_handler_invocations", int64(len(log)/2))
		if idx%13 == 0 {
			e.R.Sample(map[string]interface{}{"virtual_time_session": true, "lines": nLines, "longest_handler": maxDur.String(), "invocations": len(log) / 2})
		}
	}
}

// ---------------------------------------------------------------------------
// C16 (second clause): a background handler that never returns does not delay foreground delivery - not by a
// deadlock (the real-time sessions see that) and not by any amount of time: in the bubble every wait the library
// might insert shows as virtual time between a burst of events and the foreground delivery of its last one.
// ---------------------------------------------------------------------------

func TestC16NoDelay(t *testing.T) {
	e := loadEnv(t, "C16")
	defer e.finish(t)
	total := e.pick(20, 200)
	for idx := 0; idx < total; idx++ {
		if !e.want("nodelay", idx) {
			continue
		}
		r := rig.Rand(e.Seed, "C16nodelay", idx)
		nEv := 20 + r.Intn(100)
		nParked := 1 + r.Intn(4)
		fgToo := r.Intn(2) == 0 // the parked handlers' verb has a foreground handler as well, or not
		var elapsed time.Duration
		var delivered int
		hung := true
		synctest.Test(t, func(t *testing.T) {
			conn, ep := newClient(true, 0)
			release := make(chan struct{})
			for k := 0; k < nParked; k++ {
				conn.HandleBG("EVT", client.HandlerFunc(func(_ *client.Conn, _ *client.Line) { <-release }))
				conn.HandleBG("BGONLY", client.HandlerFunc(func(_ *client.Conn, _ *client.Line) { <-release }))
			}
			done := make(chan struct{})
			count := 0
			conn.HandleFunc("LAST", func(_ *client.Conn, _ *client.Line) { close(done) })
			if fgToo {
				conn.HandleFunc("EVT", func(_ *client.Conn, _ *client.Line) { count++ })
			} else {
				conn.HandleFunc("OTHER", func(_ *client.Conn, _ *client.Line) { count++ })
			}
			if err := conn.Connect(); err != nil {
				e.R.Inconcl("connect: " + err.Error())
				hung = false
				return
			}
			mc := ep.Last()
			synctest.Wait()
			t0 := time.Now()
			var b []byte
			for k := 0; k < nEv; k++ {
				b = append(b, fmt.Sprintf(":srv EVT %d\r\n:srv BGONLY %d\r\n:srv OTHER %d\r\n", k, k, k)...)
			}
			b = append(b, ":srv LAST\r\n"...)
			mc.SendBytes(b)
			<-done
			elapsed = time.Since(t0)
			delivered = count
			close(release)
			synctest.Wait()
			conn.Close()
			ep.Release()
			hung = false
		})
		if hung {
			e.R.Inconcl(fmt.Sprintf("nodelay:%d bubble did not finish", idx))
			return
		}
		e.R.Eval(1)
		if delivered != nEv {
			e.R.Violate(rig.Violation{Sig: "c16|events-lost-next-to-parked-bg", Detail: fmt.Sprintf("%d events next to %d parked background handlers: the foreground handler ran %d times", nEv, nParked, delivered), Case: fmt.Sprintf("nodelay:%d", idx)})
		}
		if elapsed != 0 {
			e.R.Violate(rig.Violation{Sig: "c16|foreground-delayed-by-parked-bg", Detail: fmt.Sprintf("with %d background handlers that never return, the last of %d events reached its foreground handler %v of virtual time after the burst was sent (nothing in the client has any reason to wait)", nParked, 3*nEv+1, elapsed), Case: fmt.Sprintf("nodelay:%d", idx)})
		}
		e.R.Class(fmt.Sprintf("nodelay|parked=%d|fg-on-same-verb=%v", nParked, fgToo))
		if len(e.R.Violations) > 10 {
			return
		}
	}
}
