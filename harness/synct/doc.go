// Package synct holds the virtual-time monitors (C10 flood control, C18
// client pings). They run inside testing/synctest bubbles and therefore
// need the go1.26.8 toolchain; ./check builds the test binary with it.
package synct
