//go:build !verifyield

package rig

// YieldBuild says whether this binary was built against the schedule-perturbed copy of the library (cmd/perturb).
const YieldBuild = false

// YieldReseed does nothing in a binary built against the library as it is.
func YieldReseed(s uint64) {}

// YieldStats is empty in a binary built against the library as it is.
func YieldStats() map[string]int64 { return nil }
