// Package rig is the shared machinery of the runtime monitors: an in-memory
// transport with scripted faults, a scripted server, an event log with a
// logical clock, a capturing logger, a goroutine census and a PRNG.
package rig

import (
	"context"
	"errors"
	"fmt"
	"io"
	"net"
	"net/url"
	"os"
	"strings"
	"sync"
	"sync/atomic"
	"time"

	"golang.org/x/net/proxy"
)

// ErrClosed is what Read/Write return after the client closed the MemConn.
var ErrClosed = errors.New("verifmem: use of closed connection")

// ErrInjected is the default injected I/O error.
var ErrInjected = errors.New("verifmem: injected I/O error")

// ErrRefused is the default injected dial error.
var ErrRefused = errors.New("verifmem: connection refused (injected)")

type seg struct {
	data []byte
	eof  bool
	err  error
	once bool // the error is returned by one Read only (a temporary error), the stream continues after it
}

// WriteRec describes one Write call made by the client.
type WriteRec struct {
	Off, Len int
	T        time.Time
	Tick     int64
}

// MemConn is the client's end of an in-memory connection; the harness
// drives the other end through its methods.
type MemConn struct {
	ID   int
	Addr string // address that was dialled

	mu sync.Mutex

	// server -> client
	inq       []seg
	inNotify  chan struct{} // cap 1
	reads     int           // completed Read calls that returned data
	readCalls int

	// client -> server
	out        []byte
	writes     []WriteRec
	lines      []string // complete lines (CRLF stripped) parsed from out
	lineOff    int      // offset in out up to which lines were parsed
	changed    chan struct{}
	failWrite  int // fail the k-th Write call from now (1 = next); 0 = never
	failWErr   error
	stalled    bool
	credits    int           // Write calls allowed while stalled
	gate       chan struct{} // closed when a stalled writer may re-check
	blockedW   int32         // number of writers currently blocked (atomic)
	writeCalls int

	readDeadline  time.Time // honoured like a socket does (a correct client never sets one)
	writeDeadline time.Time // likewise: a Write that starts or is still blocked at or after it fails
	dlChanged     chan struct{}

	resetErr error // set by ResetByPeer: every blocked and future Write fails

	closed    chan struct{}
	closeOnce sync.Once
	closeTick int64

	clock *Log // optional: ticks for writes
}

func newMemConn(id int, addr string, clock *Log) *MemConn {
	return &MemConn{
		ID: id, Addr: addr,
		inNotify:  make(chan struct{}, 1),
		dlChanged: make(chan struct{}),
		changed:   make(chan struct{}),
		gate:      make(chan struct{}),
		closed:    make(chan struct{}),
		clock:     clock,
	}
}

// ---- net.Conn (client side) ----

func (c *MemConn) Read(p []byte) (int, error) {
	CallTick()
	for {
		c.mu.Lock()
		c.readCalls++
		select {
		case <-c.closed:
			c.mu.Unlock()
			return 0, ErrClosed
		default:
		}
		if len(c.inq) > 0 {
			s := &c.inq[0]
			if s.eof {
				// sticky
				c.mu.Unlock()
				return 0, io.EOF
			}
			if s.err != nil {
				err := s.err
				if s.once {
					c.inq = c.inq[1:]
				}
				c.mu.Unlock()
				return 0, err
			}
			n := copy(p, s.data)
			if n == len(s.data) {
				c.inq = c.inq[1:]
			} else {
				s.data = s.data[n:]
			}
			c.reads++
			c.mu.Unlock()
			return n, nil
		}
		c.readCalls--
		dl := c.readDeadline
		dlc := c.dlChanged
		c.mu.Unlock()
		var tc <-chan time.Time
		var tm *time.Timer
		if !dl.IsZero() {
			d := time.Until(dl)
			if d <= 0 {
				return 0, os.ErrDeadlineExceeded
			}
			tm = time.NewTimer(d)
			tc = tm.C
		}
		select {
		case <-c.inNotify:
		case <-dlc:
		case <-tc:
			return 0, os.ErrDeadlineExceeded
		case <-c.closed:
			if tm != nil {
				tm.Stop()
			}
			return 0, ErrClosed
		}
		if tm != nil {
			tm.Stop()
		}
	}
}

func (c *MemConn) Write(p []byte) (int, error) {
	CallTick()
	for {
		c.mu.Lock()
		select {
		case <-c.closed:
			c.mu.Unlock()
			return 0, ErrClosed
		default:
		}
		if c.resetErr != nil {
			err := c.resetErr
			c.mu.Unlock()
			return 0, err
		}
		wdl := c.writeDeadline
		if !wdl.IsZero() && !time.Now().Before(wdl) {
			c.mu.Unlock()
			return 0, os.ErrDeadlineExceeded
		}
		if c.stalled && c.credits == 0 {
			g := c.gate
			c.mu.Unlock()
			atomic.AddInt32(&c.blockedW, 1)
			var tc <-chan time.Time
			var tm *time.Timer
			if !wdl.IsZero() {
				tm = time.NewTimer(time.Until(wdl))
				tc = tm.C
			}
			select {
			case <-g:
				atomic.AddInt32(&c.blockedW, -1)
				if tm != nil {
					tm.Stop()
				}
				continue
			case <-tc:
				atomic.AddInt32(&c.blockedW, -1)
				return 0, os.ErrDeadlineExceeded
			case <-c.closed:
				atomic.AddInt32(&c.blockedW, -1)
				if tm != nil {
					tm.Stop()
				}
				return 0, ErrClosed
			}
		}
		if c.stalled {
			c.credits--
		}
		c.writeCalls++
		if c.failWrite > 0 {
			c.failWrite--
			if c.failWrite == 0 {
				err := c.failWErr
				c.mu.Unlock()
				return 0, err
			}
		}
		rec := WriteRec{Off: len(c.out), Len: len(p), T: time.Now()}
		if c.clock != nil {
			rec.Tick = c.clock.Tick()
		}
		c.out = append(c.out, p...)
		c.writes = append(c.writes, rec)
		c.parseLinesLocked()
		c.broadcastLocked()
		c.mu.Unlock()
		return len(p), nil
	}
}

func (c *MemConn) parseLinesLocked() {
	for {
		i := indexByte(c.out[c.lineOff:], '\n')
		if i < 0 {
			return
		}
		l := string(c.out[c.lineOff : c.lineOff+i])
		l = strings.TrimSuffix(l, "\r")
		c.lines = append(c.lines, l)
		c.lineOff += i + 1
	}
}

func indexByte(b []byte, x byte) int {
	for i, v := range b {
		if v == x {
			return i
		}
	}
	return -1
}

func (c *MemConn) broadcastLocked() {
	close(c.changed)
	c.changed = make(chan struct{})
}

// Close is called by the client (net.Conn).
func (c *MemConn) Close() error {
	c.closeOnce.Do(func() {
		c.mu.Lock()
		if c.clock != nil {
			c.closeTick = c.clock.Tick()
		}
		close(c.closed)
		c.broadcastLocked()
		c.mu.Unlock()
	})
	return nil
}

type memAddr string

func (a memAddr) Network() string { return "verifmem" }
func (a memAddr) String() string  { return string(a) }

func (c *MemConn) LocalAddr() net.Addr           { return memAddr("local") }
func (c *MemConn) RemoteAddr() net.Addr          { return memAddr(c.Addr) }
func (c *MemConn) SetDeadline(t time.Time) error { return c.SetReadDeadline(t) }

// SetWriteDeadline makes a Write that begins at or after t, or is still blocked then, fail with
// os.ErrDeadlineExceeded (zero = never).
func (c *MemConn) SetWriteDeadline(t time.Time) error {
	c.mu.Lock()
	c.writeDeadline = t
	c.mu.Unlock()
	return nil
}

// TempErr is a transient read error (net.Error with Temporary() true): what EAGAIN/EINTR-style conditions or a
// proxy layer may hand a client in the middle of a stream that then simply continues.
type TempErr struct{}

func (TempErr) Error() string   { return "verif: temporary read error (injected)" }
func (TempErr) Timeout() bool   { return false }
func (TempErr) Temporary() bool { return true }

// SendTempErr makes one Read of the client (after pending data) fail with a temporary error; the bytes sent
// afterwards are delivered by later Reads.
func (c *MemConn) SendTempErr() { c.push(seg{err: TempErr{}, once: true}) }

// SetReadDeadline makes a blocked or future Read fail with os.ErrDeadlineExceeded at t (zero = never).
func (c *MemConn) SetReadDeadline(t time.Time) error {
	c.mu.Lock()
	c.readDeadline = t
	close(c.dlChanged)
	c.dlChanged = make(chan struct{})
	c.mu.Unlock()
	return nil
}

// ---- harness (server) side ----

// Closed reports whether the client has closed its end.
func (c *MemConn) Closed() bool {
	select {
	case <-c.closed:
		return true
	default:
		return false
	}
}

// ClosedCh is closed when the client closes its end.
func (c *MemConn) ClosedCh() <-chan struct{} { return c.closed }

func (c *MemConn) push(s seg) {
	c.mu.Lock()
	c.inq = append(c.inq, s)
	c.mu.Unlock()
	select {
	case c.inNotify <- struct{}{}:
	default:
	}
}

// SendBytes delivers b to the client as one segment (one Read returns at
// most this much).
func (c *MemConn) SendBytes(b []byte) {
	if len(b) == 0 {
		return
	}
	c.push(seg{data: append([]byte(nil), b...)})
}

// SendSegmented delivers b cut at the given offsets (ascending, inside b).
func (c *MemConn) SendSegmented(b []byte, cuts []int) {
	prev := 0
	for _, k := range cuts {
		if k <= prev || k >= len(b) {
			continue
		}
		c.SendBytes(b[prev:k])
		prev = k
	}
	c.SendBytes(b[prev:])
}

// SendLine delivers line + CRLF as one segment.
func (c *MemConn) SendLine(line string) { c.SendBytes([]byte(line + "\r\n")) }

// SendEOF makes the client's next Read (after pending data) return io.EOF.
func (c *MemConn) SendEOF() { c.push(seg{eof: true}) }

// SendErr makes the client's next Read (after pending data) fail with err.
func (c *MemConn) SendErr(err error) {
	if err == nil {
		err = ErrInjected
	}
	c.push(seg{err: err})
}

// PendingIn returns the number of undelivered server->client bytes.
func (c *MemConn) PendingIn() int {
	c.mu.Lock()
	defer c.mu.Unlock()
	n := 0
	for _, s := range c.inq {
		n += len(s.data)
	}
	return n
}

// FailWrite makes the k-th Write call from now fail with err (k >= 1).
func (c *MemConn) FailWrite(k int, err error) {
	if err == nil {
		err = ErrInjected
	}
	c.mu.Lock()
	c.failWrite = k
	c.failWErr = err
	c.mu.Unlock()
}

// Stall makes the server stop reading: Write calls block (after credits
// further calls) until Resume or Allow.
func (c *MemConn) Stall(credits int) {
	c.mu.Lock()
	c.stalled = true
	c.credits = credits
	c.mu.Unlock()
}

// Allow lets n more Write calls through while stalled.
func (c *MemConn) Allow(n int) {
	c.mu.Lock()
	c.credits += n
	close(c.gate)
	c.gate = make(chan struct{})
	c.mu.Unlock()
}

// Resume makes the server read again.
func (c *MemConn) Resume() {
	c.mu.Lock()
	c.stalled = false
	close(c.gate)
	c.gate = make(chan struct{})
	c.mu.Unlock()
}

// ResetByPeer models the peer going away for good: every blocked and
// future Write fails with err (ECONNRESET-like).
func (c *MemConn) ResetByPeer(err error) {
	if err == nil {
		err = ErrInjected
	}
	c.mu.Lock()
	c.resetErr = err
	close(c.gate)
	c.gate = make(chan struct{})
	c.mu.Unlock()
}

// WriteFaultArmed reports whether a future Write is scripted to fail.
func (c *MemConn) WriteFaultArmed() bool {
	c.mu.Lock()
	defer c.mu.Unlock()
	return c.failWrite > 0 || c.resetErr != nil
}

// BlockedWriters is the number of client Write calls currently blocked.
func (c *MemConn) BlockedWriters() int { return int(atomic.LoadInt32(&c.blockedW)) }

// Lines returns a snapshot of the complete lines the client has written.
func (c *MemConn) Lines() []string {
	c.mu.Lock()
	defer c.mu.Unlock()
	return append([]string(nil), c.lines...)
}

// NumLines is len(Lines()).
func (c *MemConn) NumLines() int {
	c.mu.Lock()
	defer c.mu.Unlock()
	return len(c.lines)
}

// Transcript returns a copy of every byte the client has written.
func (c *MemConn) Transcript() []byte {
	c.mu.Lock()
	defer c.mu.Unlock()
	return append([]byte(nil), c.out...)
}

// Writes returns a snapshot of the Write records.
func (c *MemConn) Writes() []WriteRec {
	c.mu.Lock()
	defer c.mu.Unlock()
	return append([]WriteRec(nil), c.writes...)
}

// ReadStats returns (Read calls that returned data, bytes still queued).
func (c *MemConn) ReadStats() (reads int) {
	c.mu.Lock()
	defer c.mu.Unlock()
	return c.reads
}

// WaitLines blocks until pred(lines) is true, the connection is closed by
// the client (returns false) or the timeout expires (returns false).
// pred is called with the connection's lock held: it must not call back.
func (c *MemConn) WaitLines(timeout time.Duration, pred func(lines []string) bool) bool {
	var wd *Watchdog
	if timeout > 0 {
		wd = NewWatchdog(timeout)
	}
	for {
		c.mu.Lock()
		ok := pred(c.lines)
		ch := c.changed
		c.mu.Unlock()
		if ok {
			return true
		}
		slice := DeadPollEvery
		if wd != nil {
			if wd.Expired() {
				return false
			} else if rem := wd.Remaining(); rem < slice && rem > 0 {
				slice = rem
			}
		}
		t := time.NewTimer(slice)
		select {
		case <-ch:
			t.Stop()
		case <-c.closed:
			t.Stop()
			c.mu.Lock()
			ok := pred(c.lines)
			c.mu.Unlock()
			return ok
		case <-t.C:
			// nothing happened for a while: if the process is provably dead, waiting longer is pointless —
			// but what is awaited may have happened just before everything went quiet: look again first
			if ProveDead(DeadInterval).Dead {
				c.mu.Lock()
				ok := pred(c.lines)
				c.mu.Unlock()
				return ok
			}
		}
	}
}

// WaitLineFrom waits for a line at index >= from satisfying match; returns
// its index or -1.
func (c *MemConn) WaitLineFrom(timeout time.Duration, from int, match func(string) bool) int {
	idx := -1
	c.WaitLines(timeout, func(lines []string) bool {
		for i := from; i < len(lines); i++ {
			if match(lines[i]) {
				idx = i
				return true
			}
		}
		return false
	})
	return idx
}

// ---- endpoint: what the client dials ----

// DialRecord is one dial attempt seen by the endpoint.
type DialRecord struct {
	Network, Addr string
	CtxAware      bool
	Err           error
	Conn          *MemConn
}

// Endpoint is the thing a client reaches through cfg.Proxy.
type Endpoint struct {
	ID    string
	Clock *Log

	mu      sync.Mutex
	dials   []DialRecord
	refuse  []error          // queue of errors for upcoming dials (nil entry = accept)
	prepare func(c *MemConn) // called on every new connection before the client gets it
	conns   []*MemConn
	newConn chan *MemConn
}

var (
	endpoints   sync.Map // id -> *Endpoint
	endpointSeq int64
	regOnce     sync.Once
)

type memDialer struct {
	ep *Endpoint
}

func (d memDialer) Dial(network, addr string) (net.Conn, error) {
	return d.ep.dial(network, addr, false)
}

type memCtxDialer struct{ memDialer }

func (d memCtxDialer) DialContext(ctx context.Context, network, addr string) (net.Conn, error) {
	if err := ctx.Err(); err != nil {
		d.ep.mu.Lock()
		d.ep.dials = append(d.ep.dials, DialRecord{Network: network, Addr: addr, CtxAware: true, Err: err})
		d.ep.mu.Unlock()
		return nil, err
	}
	return d.ep.dial(network, addr, true)
}

func register() {
	regOnce.Do(func() {
		proxy.RegisterDialerType("verifmem", func(u *url.URL, _ proxy.Dialer) (proxy.Dialer, error) {
			v, ok := endpoints.Load(u.Host)
			if !ok {
				return nil, fmt.Errorf("verifmem: unknown endpoint %q", u.Host)
			}
			return memDialer{v.(*Endpoint)}, nil
		})
		proxy.RegisterDialerType("verifmemctx", func(u *url.URL, _ proxy.Dialer) (proxy.Dialer, error) {
			v, ok := endpoints.Load(u.Host)
			if !ok {
				return nil, fmt.Errorf("verifmem: unknown endpoint %q", u.Host)
			}
			return memCtxDialer{memDialer{v.(*Endpoint)}}, nil
		})
	})
}

// NewEndpoint creates and registers an endpoint.
func NewEndpoint(clock *Log) *Endpoint {
	register()
	id := fmt.Sprintf("ep%d", atomic.AddInt64(&endpointSeq, 1))
	ep := &Endpoint{ID: id, Clock: clock, newConn: make(chan *MemConn, 64)}
	endpoints.Store(id, ep)
	return ep
}

// Release unregisters the endpoint.
func (e *Endpoint) Release() { endpoints.Delete(e.ID) }

// ProxyURL is the value for cfg.Proxy.
func (e *Endpoint) ProxyURL(ctxAware bool) string {
	if ctxAware {
		return "verifmemctx://" + e.ID
	}
	return "verifmem://" + e.ID
}

// RefuseNext makes the next dial fail with err.
func (e *Endpoint) RefuseNext(err error) {
	if err == nil {
		err = ErrRefused
	}
	e.mu.Lock()
	e.refuse = append(e.refuse, err)
	e.mu.Unlock()
}

// Prepare installs a hook run on each new connection before the client
// gets it (to script faults that must be in place from the first byte).
func (e *Endpoint) Prepare(f func(c *MemConn)) {
	e.mu.Lock()
	e.prepare = f
	e.mu.Unlock()
}

func (e *Endpoint) dial(network, addr string, ctxAware bool) (net.Conn, error) {
	e.mu.Lock()
	if len(e.refuse) > 0 {
		err := e.refuse[0]
		e.refuse = e.refuse[1:]
		if err != nil {
			e.dials = append(e.dials, DialRecord{Network: network, Addr: addr, CtxAware: ctxAware, Err: err})
			e.mu.Unlock()
			return nil, err
		}
	}
	c := newMemConn(len(e.conns)+1, addr, e.Clock)
	e.conns = append(e.conns, c)
	e.dials = append(e.dials, DialRecord{Network: network, Addr: addr, CtxAware: ctxAware, Conn: c})
	prep := e.prepare
	e.mu.Unlock()
	if prep != nil {
		prep(c)
	}
	select {
	case e.newConn <- c:
	default:
	}
	return c, nil
}

// Dials returns a snapshot of the dial records.
func (e *Endpoint) Dials() []DialRecord {
	e.mu.Lock()
	defer e.mu.Unlock()
	return append([]DialRecord(nil), e.dials...)
}

// Conns returns a snapshot of the accepted connections.
func (e *Endpoint) Conns() []*MemConn {
	e.mu.Lock()
	defer e.mu.Unlock()
	return append([]*MemConn(nil), e.conns...)
}

// Last returns the most recently accepted connection or nil.
func (e *Endpoint) Last() *MemConn {
	e.mu.Lock()
	defer e.mu.Unlock()
	if len(e.conns) == 0 {
		return nil
	}
	return e.conns[len(e.conns)-1]
}

// Take returns the complete lines and raw bytes written since the last Take
// and forgets them (bytes of an incomplete last line are kept).
func (c *MemConn) Take() (lines []string, raw []byte) {
	c.mu.Lock()
	defer c.mu.Unlock()
	lines = c.lines
	raw = append([]byte(nil), c.out[:c.lineOff]...)
	c.lines = nil
	c.out = append([]byte(nil), c.out[c.lineOff:]...)
	c.lineOff = 0
	c.writes = nil
	return
}
