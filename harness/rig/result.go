package rig

import (
	"encoding/json"
	"fmt"
	"hash/fnv"
	"math/rand"
	"os"
	"sort"
	"sync"
)

// Rand returns a PRNG whose stream is a pure function of the labels.
func Rand(labels ...interface{}) *rand.Rand {
	h := fnv.New64a()
	for _, l := range labels {
		fmt.Fprintf(h, "%v\x00", l)
	}
	return rand.New(rand.NewSource(int64(h.Sum64() & 0x7fffffffffffffff)))
}

// Violation is one refuting observation.
type Violation struct {
	Sig     string      `json:"sig"`    // stable signature (used by KNOWN_FINDINGS)
	Detail  string      `json:"detail"` // human-readable
	Case    string      `json:"case"`   // "<generator>:<index>" for replay
	Witness interface{} `json:"witness,omitempty"`
}

// Result is what one worker batch reports.
type Result struct {
	Property     string           `json:"property"`
	Batch        string           `json:"batch"`
	Evaluations  int64            `json:"evaluations"`
	Classes      map[string]int64 `json:"classes"`  // distinct non-trivial class -> cases
	Counters     map[string]int64 `json:"counters"` // free-form measured counters
	Samples      []interface{}    `json:"samples"`
	Violations   []Violation      `json:"violations"`
	Inconclusive []string         `json:"inconclusive"`
	Exhaustive   map[string]bool  `json:"exhaustive,omitempty"` // generator -> enumerated completely
	Notes        []string         `json:"notes,omitempty"`
	Done         bool             `json:"done"`

	mu         sync.Mutex
	maxSamples int
	vioSeen    map[string]int
}

// NewResult creates an empty result.
func NewResult(prop, batch string) *Result {
	return &Result{Property: prop, Batch: batch,
		Classes: map[string]int64{}, Counters: map[string]int64{},
		Exhaustive: map[string]bool{}, maxSamples: 6, vioSeen: map[string]int{}}
}

// Eval counts n evaluated cases.
func (r *Result) Eval(n int64) {
	r.mu.Lock()
	r.Evaluations += n
	r.mu.Unlock()
}

// Evals returns the number of evaluated cases so far.
func (r *Result) Evals() int64 {
	r.mu.Lock()
	defer r.mu.Unlock()
	return r.Evaluations
}

// Class records a case of a non-trivial class.
func (r *Result) Class(c string) {
	r.mu.Lock()
	r.Classes[c]++
	r.mu.Unlock()
}

// Count adds n to a named counter.
func (r *Result) Count(name string, n int64) {
	r.mu.Lock()
	r.Counters[name] += n
	r.mu.Unlock()
}

// Max raises a named counter to at least n.
func (r *Result) Max(name string, n int64) {
	r.mu.Lock()
	if r.Counters[name] < n {
		r.Counters[name] = n
	}
	r.mu.Unlock()
}

// Sample keeps up to a handful of actual cases.
func (r *Result) Sample(s interface{}) {
	r.mu.Lock()
	if len(r.Samples) < r.maxSamples {
		r.Samples = append(r.Samples, s)
	}
	r.mu.Unlock()
}

// WantSample reports whether another sample would be kept.
func (r *Result) WantSample() bool {
	r.mu.Lock()
	defer r.mu.Unlock()
	return len(r.Samples) < r.maxSamples
}

// Violate records a violation; at most 5 per signature are kept in detail.
func (r *Result) Violate(v Violation) {
	r.mu.Lock()
	r.vioSeen[v.Sig]++
	if r.vioSeen[v.Sig] <= 5 {
		r.Violations = append(r.Violations, v)
	}
	r.Counters["violations_total"]++
	r.mu.Unlock()
}

// NumViolations returns the number of violations observed so far (all of them, not only those kept in detail).
func (r *Result) NumViolations() int {
	r.mu.Lock()
	defer r.mu.Unlock()
	return int(r.Counters["violations_total"])
}

// Inconcl records an undecided case.
func (r *Result) Inconcl(s string) {
	r.mu.Lock()
	if len(r.Inconclusive) < 50 {
		r.Inconclusive = append(r.Inconclusive, s)
	}
	r.Counters["inconclusive_total"]++
	r.mu.Unlock()
}

// Note records a free-form remark.
func (r *Result) Note(s string) {
	r.mu.Lock()
	if len(r.Notes) < 50 {
		r.Notes = append(r.Notes, s)
	}
	r.mu.Unlock()
}

// Write stores the result as JSON.
func (r *Result) Write(path string) error {
	r.mu.Lock()
	defer r.mu.Unlock()
	b, err := json.MarshalIndent(r, "", " ")
	if err != nil {
		return err
	}
	tmp := path + ".tmp"
	if err := os.WriteFile(tmp, b, 0o644); err != nil {
		return err
	}
	return os.Rename(tmp, path)
}

// SortedClasses lists the class names.
func (r *Result) SortedClasses() []string {
	r.mu.Lock()
	defer r.mu.Unlock()
	var out []string
	for k := range r.Classes {
		out = append(out, k)
	}
	sort.Strings(out)
	return out
}

// Journal is an unbuffered per-worker file naming the case in flight.
type Journal struct {
	f    *os.File
	mu   sync.Mutex
	last string
}

// Last returns the most recent journal line.
func (j *Journal) Last() string {
	j.mu.Lock()
	defer j.mu.Unlock()
	return j.last
}

// OpenJournal opens (truncates) the journal file; path "" gives a no-op journal.
func OpenJournal(path string) *Journal {
	if path == "" {
		return &Journal{}
	}
	f, err := os.OpenFile(path, os.O_CREATE|os.O_WRONLY|os.O_TRUNC, 0o644)
	if err != nil {
		return &Journal{}
	}
	return &Journal{f: f}
}

// Log appends one line (synchronously written to the OS).
func (j *Journal) Log(format string, a ...interface{}) {
	s := fmt.Sprintf(format, a...)
	j.mu.Lock()
	j.last = s
	j.mu.Unlock()
	if j.f == nil {
		return
	}
	fmt.Fprintln(j.f, s)
}

// Close closes the journal.
func (j *Journal) Close() {
	if j.f != nil {
		j.f.Close()
	}
}
