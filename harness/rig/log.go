package rig

import (
	"sync"
	"sync/atomic"
)

// Event is one record of the monitor's event log.
type Event struct {
	Tick int64
	Kind string
	Conn int   // connection number (0 if n/a)
	Seq  int   // line sequence number or other id
	H    int   // handler id
	G    int64 // goroutine id (0 if not recorded)
	S    string
}

// Log is a mutex-protected event log with a logical clock. The tick of an
// appended event is taken inside the same critical section as the append,
// so the log order is a total order consistent with real time.
type Log struct {
	mu     sync.Mutex
	tick   int64
	events []Event
}

// NewLog returns an empty log.
func NewLog() *Log { return &Log{} }

// Tick advances and returns the logical clock without appending an event.
func (l *Log) Tick() int64 { return atomic.AddInt64(&l.tick, 1) }

// Add appends an event and returns its tick.
func (l *Log) Add(e Event) int64 {
	CallTick()
	l.mu.Lock()
	e.Tick = atomic.AddInt64(&l.tick, 1)
	l.events = append(l.events, e)
	l.mu.Unlock()
	return e.Tick
}

// Events returns a snapshot.
func (l *Log) Events() []Event {
	l.mu.Lock()
	defer l.mu.Unlock()
	return append([]Event(nil), l.events...)
}

// Len returns the number of events.
func (l *Log) Len() int {
	l.mu.Lock()
	defer l.mu.Unlock()
	return len(l.events)
}

// Reset empties the log (the clock keeps running).
func (l *Log) Reset() {
	l.mu.Lock()
	l.events = nil
	l.mu.Unlock()
}
