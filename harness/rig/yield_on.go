//go:build verifyield

package rig

import "github.com/fluffle/goirc/verifyield"

// YieldBuild says whether this binary was built against the schedule-perturbed copy of the library (cmd/perturb).
const YieldBuild = true

// YieldReseed chooses a new set of hot yield points.
func YieldReseed(s uint64) { verifyield.Reseed(s) }

// YieldStats reports what the yield points did in this process.
func YieldStats() map[string]int64 { return verifyield.Stats() }
