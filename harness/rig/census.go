package rig

import (
	"fmt"
	"regexp"
	"runtime"
	"sort"
	"strconv"
	"strings"
	"sync/atomic"
	"syscall"
	"time"
)

// Goro is one parsed goroutine of a runtime.Stack(all) dump.
type Goro struct {
	ID        int64
	State     string   // "chan receive", "select", "sync.Mutex.Lock", "running", ...
	Frames    []string // function names, innermost first
	CreatedBy string
	Raw       string
}

var (
	headRe    = regexp.MustCompile(`^goroutine (\d+)(?: gp=\S+ m=\S+(?: mp=\S+)?)? \[([^\]]*)\]:`)
	createdRe = regexp.MustCompile(`^created by (\S+)`)
)

// Census takes a dump of all goroutines.
func Census() []Goro {
	buf := make([]byte, 1<<20)
	for {
		n := runtime.Stack(buf, true)
		if n < len(buf) {
			buf = buf[:n]
			break
		}
		buf = make([]byte, 2*len(buf))
	}
	return ParseDump(string(buf))
}

// ParseDump parses the text form of a goroutine dump.
func ParseDump(s string) []Goro {
	var out []Goro
	for _, blk := range strings.Split(s, "\n\n") {
		lines := strings.Split(strings.TrimSpace(blk), "\n")
		if len(lines) == 0 {
			continue
		}
		m := headRe.FindStringSubmatch(lines[0])
		if m == nil {
			continue
		}
		id, _ := strconv.ParseInt(m[1], 10, 64)
		st := m[2]
		// strip wait duration and flags: "chan receive, 2 minutes", "select, locked to thread", "(synctest)"
		if i := strings.Index(st, ","); i >= 0 {
			st = st[:i]
		}
		st = strings.TrimSpace(strings.TrimSuffix(strings.TrimSpace(st), "(durable)"))
		g := Goro{ID: id, State: st, Raw: blk}
		for _, l := range lines[1:] {
			if strings.HasPrefix(l, "\t") || l == "" {
				continue
			}
			if cm := createdRe.FindStringSubmatch(l); cm != nil {
				g.CreatedBy = cm[1]
				continue
			}
			// function line: "pkg.Func(args...)" — strip the argument list
			f := l
			if i := strings.LastIndex(f, "("); i > 0 {
				f = f[:i]
			}
			g.Frames = append(g.Frames, f)
		}
		out = append(out, g)
	}
	return out
}

const libPrefix = "github.com/fluffle/goirc/"

// LibRole returns the library role of the goroutine ("send", "recv",
// "runLoop", "ping", "dispatch", "bgdispatch", "handler", "ctxwatch") or "" if it is not a
// goroutine started by the library.
func (g *Goro) LibRole() string {
	cb := g.CreatedBy
	if !strings.HasPrefix(cb, libPrefix) {
		return ""
	}
	switch {
	case strings.HasSuffix(cb, "(*Conn).postConnect"):
		for _, f := range g.Frames {
			for _, r := range []string{"send", "recv", "runLoop", "ping"} {
				if strings.HasSuffix(f, "(*Conn)."+r) {
					return r
				}
			}
		}
		// exited its main function's frame? (cannot be) — a helper started by postConnect
		return "conn-helper"
	case strings.Contains(cb, "(*hSet).dispatch"):
		return "handler"
	case strings.HasSuffix(cb, "(*Conn).dispatch"):
		return "bgdispatch"
	}
	return "lib-other"
}

// InLib reports whether any frame of g is in the library.
func (g *Goro) InLib() bool {
	for _, f := range g.Frames {
		if strings.HasPrefix(f, libPrefix) {
			return true
		}
	}
	return false
}

// HasFrame reports whether a frame with the given suffix is on g's stack.
func (g *Goro) HasFrame(suffix string) bool {
	for _, f := range g.Frames {
		if strings.HasSuffix(f, suffix) {
			return true
		}
	}
	return false
}

// Blocked reports whether the goroutine is parked in a state that only
// another goroutine (not time, not I/O) can end.
func (g *Goro) Blocked() bool {
	switch g.State {
	case "chan receive", "chan send", "select", "select (no cases)",
		"sync.Mutex.Lock", "sync.RWMutex.Lock", "sync.RWMutex.RLock",
		"sync.WaitGroup.Wait", "sync.Cond.Wait", "semacquire",
		"chan receive (nil chan)", "chan send (nil chan)":
		return true
	}
	return false
}

// AtTimerSite reports whether g is parked at one of the two places where
// the library waits for time to pass.
func (g *Goro) AtTimerSite() bool {
	if len(g.Frames) == 0 {
		return false
	}
	for i, f := range g.Frames {
		if strings.HasSuffix(f, "(*Conn).ping") && i <= 1 {
			return true
		}
		if strings.HasSuffix(f, "(*Conn).write") && i <= 1 && g.State == "chan receive" {
			return true
		}
	}
	return false
}

func isRuntimeGoro(g *Goro) bool {
	if len(g.Frames) == 0 {
		return true
	}
	for _, f := range g.Frames {
		if strings.HasSuffix(f, "main.spinWatchdog") || strings.HasSuffix(f, "rig.stallWatch") {
			return true // the worker's own watchdog sleeps on purpose and never touches the system under test
		}
	}
	cb := g.CreatedBy
	if strings.HasPrefix(cb, "runtime.") || strings.HasPrefix(cb, "runtime/") ||
		strings.HasPrefix(cb, "os/signal.") || strings.HasPrefix(cb, "testing.") && false {
		return true
	}
	top := g.Frames[len(g.Frames)-1]
	if strings.HasPrefix(top, "runtime.") && cb == "" && !strings.HasPrefix(top, "runtime.main") && !strings.HasPrefix(top, "runtime.goexit") {
		return true
	}
	for _, f := range g.Frames {
		if strings.HasPrefix(f, "os/signal.") || strings.HasPrefix(f, "runtime.ensureSigM") {
			return true
		}
	}
	return false
}

// Fingerprint is a stable description of a census: ids, states and frames.
func Fingerprint(gs []Goro, skip func(*Goro) bool) string {
	var parts []string
	for i := range gs {
		g := &gs[i]
		if isRuntimeGoro(g) || (skip != nil && skip(g)) {
			continue
		}
		parts = append(parts, fmt.Sprintf("%d|%s|%s", g.ID, g.State, strings.Join(g.Frames, "<")))
	}
	sort.Strings(parts)
	return strings.Join(parts, "\n")
}

// LibGoros returns the goroutines started by the library.
func LibGoros(gs []Goro) []Goro {
	var out []Goro
	for _, g := range gs {
		if g.LibRole() != "" {
			out = append(out, g)
		}
	}
	return out
}

// DeadPollEvery is how long a harness wait stays silent before it attempts a
// dead-state proof; DeadInterval is the distance between the two censuses.
var (
	DeadPollEvery = 2 * time.Second
	DeadInterval  = 250 * time.Millisecond
)

// DeadState is the result of ProveDead.
type DeadState struct {
	Dead      bool
	Reason    string // why not dead, if not
	Signature string // sorted blocked library frames (functions, no lines)
	Dump      string
}

func selfGoroID() int64 {
	var b [64]byte
	n := runtime.Stack(b[:], false)
	f := strings.Fields(string(b[:n]))
	if len(f) >= 2 {
		id, _ := strconv.ParseInt(f[1], 10, 64)
		return id
	}
	return 0
}

// ProveDead decides whether the process is in a state from which no step is
// possible: two censuses d apart are identical, every non-runtime goroutine
// except the caller is blocked on another goroutine, and none is parked at a
// library timer site. ignore may exempt harness goroutines that are known to
// be parked on purpose waiting for the very completion being awaited — they
// are still required to be blocked.
func ProveDead(d time.Duration) DeadState { return ProveDeadOpt(d, DeadOpt{}) }

// DeadOpt relaxes the proof where the relaxation is sound.
type DeadOpt struct {
	// TolerantPing tolerates ping goroutines parked at their ticker: a tick only sends a PING line, and with
	// a passive peer whose writes succeed (or block) that cannot lead to a teardown. The caller must make
	// sure no write fault is armed on the transport.
	TolerantPing bool
	// IOWaitBlocked counts goroutines parked in the network poller ("IO wait") as blocked. That is sound when every
	// socket of the process has its other end inside the process too (loopback scenarios whose server goroutines
	// are part of the same census) and nobody sets deadlines: only a goroutine that can still move could write.
	IOWaitBlocked bool
}

// ProveDeadOpt is ProveDead with options.
func ProveDeadOpt(d time.Duration, opt DeadOpt) DeadState {
	self := selfGoroID()
	skip := func(g *Goro) bool { return g.ID == self }
	c1 := Census()
	f1 := Fingerprint(c1, skip)
	time.Sleep(d)
	c2 := Census()
	f2 := Fingerprint(c2, skip)
	if f1 != f2 {
		return DeadState{Reason: "census changed between polls"}
	}
	var sig []string
	var dump strings.Builder
	for i := range c2 {
		g := &c2[i]
		if g.ID == self || isRuntimeGoro(g) {
			continue
		}
		if !g.Blocked() && !(opt.IOWaitBlocked && g.State == "IO wait") {
			return DeadState{Reason: fmt.Sprintf("goroutine %d is %q", g.ID, g.State)}
		}
		if g.AtTimerSite() && !(opt.TolerantPing && g.LibRole() == "ping") {
			return DeadState{Reason: fmt.Sprintf("goroutine %d waits at a library timer site", g.ID)}
		}
		if g.InLib() {
			inner := ""
			for _, f := range g.Frames {
				if strings.HasPrefix(f, libPrefix) {
					inner = strings.TrimPrefix(f, libPrefix)
					break
				}
			}
			sig = append(sig, fmt.Sprintf("%s[%s]", inner, g.State))
		}
		dump.WriteString(g.Raw)
		dump.WriteString("\n\n")
	}
	sort.Strings(sig)
	// compress duplicates
	var csig []string
	for i := 0; i < len(sig); {
		j := i
		for j < len(sig) && sig[j] == sig[i] {
			j++
		}
		if j-i > 1 {
			csig = append(csig, sig[i]+"*")
		} else {
			csig = append(csig, sig[i])
		}
		i = j
	}
	return DeadState{Dead: true, Signature: strings.Join(csig, " "), Dump: dump.String()}
}

// WaitNoLib polls until no library goroutine remains; if two consecutive
// censuses d apart are identical and still contain one, it returns the
// leaked goroutines. ok=false with nil leak means "still changing after max polls".
func WaitNoLib(d time.Duration, maxPolls int) (leak []Goro, ok bool) {
	return WaitNoLibExcept(nil, d, maxPolls)
}

// LibGoroIDs returns the ids of the library goroutines alive now.
func LibGoroIDs() map[int64]bool {
	out := map[int64]bool{}
	for _, g := range LibGoros(Census()) {
		out[g.ID] = true
	}
	return out
}

// WaitNoLibExcept is WaitNoLib ignoring the goroutines whose ids are in ignore
// (leftovers of an earlier, already reported, stuck scenario in this process).
func WaitNoLibExcept(ignore map[int64]bool, d time.Duration, maxPolls int) (leak []Goro, ok bool) {
	prev := ""
	var since time.Time
	for i := 0; i < maxPolls; i++ {
		c := Census()
		var lib []Goro
		for _, g := range LibGoros(c) {
			if !ignore[g.ID] {
				lib = append(lib, g)
			}
		}
		if len(lib) == 0 {
			return nil, true
		}
		fp := Fingerprint(lib, nil)
		if fp == prev {
			allBlocked := true
			for i := range lib {
				if !lib[i].Blocked() || lib[i].AtTimerSite() {
					allBlocked = false
				}
			}
			if allBlocked && time.Since(since) >= d {
				// the remaining library goroutines may be waiting for a harness goroutine that is merely starved of
				// CPU: a leak is declared only when nothing else in the process could still move either
				self := selfGoroID()
				quiet := true
				for i := range c {
					g := &c[i]
					if g.ID == self || isRuntimeGoro(g) {
						continue
					}
					if !g.Blocked() {
						quiet = false
					}
				}
				if quiet {
					return lib, false
				}
			}
		} else {
			prev = fp
			since = time.Now()
		}
		if i < 20 {
			runtime.Gosched()
			time.Sleep(time.Duration(i+1) * 200 * time.Microsecond)
		} else {
			time.Sleep(d)
		}
	}
	return nil, false
}

// HasFrameContaining reports whether a frame containing sub is on g's stack.
func (g *Goro) HasFrameContaining(sub string) bool {
	for _, f := range g.Frames {
		if strings.Contains(f, sub) {
			return true
		}
	}
	return false
}

// ---- spin (busy-loop) proof ----

var callTick int64

// CallTick is incremented by the harness around every library call it makes on its own goroutines.
func CallTick() { atomic.AddInt64(&callTick, 1) }

// CallTicks returns the counter.
func CallTicks() int64 { return atomic.LoadInt64(&callTick) }

// Watchdog is the wall-clock guard around a harness wait. It is never a verdict: its firing makes the case
// inconclusive. To stay quiet on a loaded machine it expires only after `quiet` without the harness having seen any
// I/O or call complete (the tick counter standing still), or after 6 x quiet in total.
type Watchdog struct {
	quiet, hard     time.Duration
	start, lastProg time.Time
	lastTicks       int64
}

// NewWatchdog starts a watchdog.
func NewWatchdog(quiet time.Duration) *Watchdog {
	now := time.Now()
	return &Watchdog{quiet: quiet, hard: 6 * quiet, start: now, lastProg: now, lastTicks: CallTicks()}
}

// Expired must be polled regularly (the sliced waits do, every DeadPollEvery at most).
func (w *Watchdog) Expired() bool {
	now := time.Now()
	if t := CallTicks(); t != w.lastTicks {
		w.lastTicks, w.lastProg = t, now
	}
	return now.Sub(w.lastProg) > w.quiet || now.Sub(w.start) > w.hard
}

// Remaining is the time until the watchdog can expire at the earliest.
func (w *Watchdog) Remaining() time.Duration {
	r := w.quiet - time.Since(w.lastProg)
	if h := w.hard - time.Since(w.start); h < r {
		r = h
	}
	return r
}

func processCPU() time.Duration {
	var ru syscall.Rusage
	if err := syscall.Getrusage(syscall.RUSAGE_SELF, &ru); err != nil {
		return 0
	}
	return time.Duration(ru.Utime.Nano() + ru.Stime.Nano())
}

// SpinState is the result of ProveSpin.
type SpinState struct {
	Spinning bool
	Func     string // innermost library function of the spinning goroutine
	CPU      time.Duration
	Dump     string
	Reason   string
}

// ProveSpin decides whether one goroutine has been computing inside one and the same library function for the whole
// observation: `samples` censuses one second apart all show the same goroutine id running/runnable with the same
// innermost library function, and the process consumed at least minCPU of CPU time meanwhile (so it really executed
// that long — CPU time, not wall time, is what is measured: on a loaded machine the samples just take longer to
// accumulate it). stillStuck is polled at every sample; it must keep returning true (e.g. "the call counter has not moved").
func ProveSpin(samples int, minCPU time.Duration, stillStuck func() bool) SpinState {
	self := selfGoroID()
	type key struct {
		id int64
		fn string
	}
	var cand map[key]string
	cpu0 := processCPU()
	for i := 0; i < samples || processCPU()-cpu0 < minCPU; i++ {
		if i > 4*samples {
			return SpinState{Reason: "not enough CPU time consumed while observing"}
		}
		if stillStuck != nil && !stillStuck() {
			return SpinState{Reason: "progress was made"}
		}
		now := map[key]string{}
		for _, g := range Census() {
			if g.ID == self || (g.State != "running" && g.State != "runnable") {
				continue
			}
			// matched on the goroutine and its outermost library frame (the entry point of this one call or
			// handler invocation); the innermost one may legitimately alternate between a function and its helpers
			outer := ""
			for _, f := range g.Frames {
				if strings.HasPrefix(f, libPrefix) {
					outer = strings.TrimPrefix(f, libPrefix)
				}
			}
			if outer != "" {
				now[key{g.ID, outer}] = g.Raw
			}
		}
		if cand == nil {
			cand = now
		} else {
			for k := range cand {
				if _, ok := now[k]; !ok {
					delete(cand, k)
				} else {
					cand[k] = now[k]
				}
			}
		}
		if len(cand) == 0 {
			return SpinState{Reason: "no goroutine stayed in one library function"}
		}
		time.Sleep(time.Second)
	}
	for k, raw := range cand {
		fn := k.fn
		for _, g := range ParseDump(raw) {
			for _, f := range g.Frames {
				if strings.HasPrefix(f, libPrefix) {
					fn = strings.TrimPrefix(f, libPrefix) + "<-" + k.fn
					break
				}
			}
		}
		return SpinState{Spinning: true, Func: fn, CPU: processCPU() - cpu0, Dump: raw}
	}
	return SpinState{Reason: "no candidate"}
}

// StallWatch starts a goroutine (excluded from dead-state proofs by its name) that ends a worker whose own goroutine
// is stuck inside a library call: when progress() has not moved for four seconds and the process is provably dead,
// onDead is called with the proof. Used by the workers that call the tracker directly on their main goroutine.
func StallWatch(progress func() int64, onDead func(ds DeadState)) {
	go stallWatch(progress, onDead)
}

func stallWatch(progress func() int64, onDead func(ds DeadState)) {
	last, since := progress(), time.Now()
	for {
		time.Sleep(time.Second)
		if now := progress(); now != last {
			last, since = now, time.Now()
			continue
		}
		if time.Since(since) < 4*time.Second {
			continue
		}
		if ds := ProveDead(DeadInterval); ds.Dead && progress() == last {
			onDead(ds)
			return
		}
		since = time.Now()
	}
}
