package rig

import (
	"fmt"
	"runtime"
	"strings"
	"sync"
	"sync/atomic"

	"github.com/fluffle/goirc/logging"
)

// LogRecord is one record the library handed to the logger.
type LogRecord struct {
	Level  string
	Format string
	Args   []interface{}
	Text   string
	Site   string // innermost goirc function on the calling stack ("" if not captured)
	Outer  string // outermost goirc function on the calling stack
	Tick   int64
}

// CapLogger implements logging.Logger and keeps everything.
type CapLogger struct {
	mu      sync.Mutex
	recs    []LogRecord
	Clock   *Log
	Sites   bool                    // capture calling functions
	OnRec   func(r *LogRecord)      // called synchronously on the library's goroutine, outside the logger's lock
	Discard func(r *LogRecord) bool // if set and returns true, the record is not kept (still passed to OnRec)
	changed chan struct{}
	hook    atomic.Value // func(*LogRecord): like OnRec, but may be replaced while library goroutines are logging
}

// SetHook installs (or, with nil, removes) a record hook atomically.
func (l *CapLogger) SetHook(f func(r *LogRecord)) {
	if f == nil {
		f = func(*LogRecord) {}
	}
	l.hook.Store(f)
}

// NewCapLogger creates a capturing logger and installs it.
func NewCapLogger(clock *Log) *CapLogger {
	l := &CapLogger{Clock: clock, changed: make(chan struct{})}
	logging.SetLogger(l)
	return l
}

// Uninstall restores the null logger.
func (l *CapLogger) Uninstall() { logging.SetLogger(nil) }

func (l *CapLogger) add(level, f string, a []interface{}) {
	r := LogRecord{Level: level, Format: f, Args: a, Text: fmt.Sprintf(f, a...)}
	if l.Sites {
		r.Site, r.Outer = callerSites()
	}
	if l.Clock != nil {
		r.Tick = l.Clock.Tick()
	}
	keep := l.Discard == nil || !l.Discard(&r)
	if keep {
		l.mu.Lock()
		l.recs = append(l.recs, r)
		close(l.changed)
		l.changed = make(chan struct{})
		l.mu.Unlock()
	}
	if f, _ := l.hook.Load().(func(r *LogRecord)); f != nil {
		f(&r)
	} else if l.OnRec != nil {
		l.OnRec(&r)
	}
}

func callerSites() (inner, outer string) {
	var pcs [40]uintptr
	n := runtime.Callers(3, pcs[:])
	frames := runtime.CallersFrames(pcs[:n])
	for {
		fr, more := frames.Next()
		if strings.Contains(fr.Function, "fluffle/goirc/") && !strings.Contains(fr.Function, "goirc/logging.") {
			name := fr.Function[strings.LastIndex(fr.Function, "/")+1:]
			if inner == "" {
				inner = name
			}
			outer = name
		}
		if !more {
			break
		}
	}
	return
}

func (l *CapLogger) Debug(f string, a ...interface{}) { l.add("debug", f, a) }
func (l *CapLogger) Info(f string, a ...interface{})  { l.add("info", f, a) }
func (l *CapLogger) Warn(f string, a ...interface{})  { l.add("warn", f, a) }
func (l *CapLogger) Error(f string, a ...interface{}) { l.add("error", f, a) }

// Records returns a snapshot.
func (l *CapLogger) Records() []LogRecord {
	l.mu.Lock()
	defer l.mu.Unlock()
	return append([]LogRecord(nil), l.recs...)
}

// Len returns the number of records kept.
func (l *CapLogger) Len() int {
	l.mu.Lock()
	defer l.mu.Unlock()
	return len(l.recs)
}

// Reset drops all records.
func (l *CapLogger) Reset() {
	l.mu.Lock()
	l.recs = nil
	l.mu.Unlock()
}

// Count returns how many kept records satisfy pred.
func (l *CapLogger) Count(pred func(r *LogRecord) bool) int {
	l.mu.Lock()
	defer l.mu.Unlock()
	n := 0
	for i := range l.recs {
		if pred(&l.recs[i]) {
			n++
		}
	}
	return n
}

// Changed returns a channel closed at the next kept record.
func (l *CapLogger) Changed() <-chan struct{} {
	l.mu.Lock()
	defer l.mu.Unlock()
	return l.changed
}

// fmtLogger formats every record the way any real logger does (so that String methods of the arguments run, on the
// caller's goroutine and under whatever locks the caller holds) and throws the text away.
type fmtLogger struct{ n int64 }

func (l *fmtLogger) add(f string, a []interface{}) {
	_ = fmt.Sprintf(f, a...)
	atomic.AddInt64(&l.n, 1)
}
func (l *fmtLogger) Debug(f string, a ...interface{}) { l.add(f, a) }
func (l *fmtLogger) Info(f string, a ...interface{})  { l.add(f, a) }
func (l *fmtLogger) Warn(f string, a ...interface{})  { l.add(f, a) }
func (l *fmtLogger) Error(f string, a ...interface{}) { l.add(f, a) }

// InstallFormattingLogger installs a logger that formats and discards; the returned function reports how many
// records it formatted.
func InstallFormattingLogger() func() int64 {
	l := &fmtLogger{}
	logging.SetLogger(l)
	return func() int64 { return atomic.LoadInt64(&l.n) }
}
