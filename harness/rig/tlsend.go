package rig

import (
	"bufio"
	"crypto/ecdsa"
	"crypto/elliptic"
	"crypto/rand"
	"crypto/tls"
	"crypto/x509"
	"crypto/x509/pkix"
	"io"
	"math/big"
	"net"
	"strings"
	"sync"
	"time"
)

// serverSide adapts the harness end of a MemConn to net.Conn (so that a
// TLS server can sit on it): Read consumes what the client wrote, Write
// delivers bytes to the client.
type serverSide struct {
	c   *MemConn
	off int
}

// ServerSide returns a net.Conn view of the harness end of c.
func (c *MemConn) ServerSide() net.Conn { return &serverSide{c: c} }

func (s *serverSide) Read(p []byte) (int, error) {
	for {
		s.c.mu.Lock()
		if s.off < len(s.c.out) {
			n := copy(p, s.c.out[s.off:])
			s.off += n
			s.c.mu.Unlock()
			return n, nil
		}
		ch := s.c.changed
		s.c.mu.Unlock()
		select {
		case <-ch:
		case <-s.c.closed:
			s.c.mu.Lock()
			more := s.off < len(s.c.out)
			s.c.mu.Unlock()
			if !more {
				return 0, io.EOF
			}
		}
	}
}

func (s *serverSide) Write(p []byte) (int, error) {
	if s.c.Closed() {
		return 0, ErrClosed
	}
	s.c.SendBytes(p)
	return len(p), nil
}

func (s *serverSide) Close() error                       { s.c.SendEOF(); return nil }
func (s *serverSide) LocalAddr() net.Addr                { return memAddr("server") }
func (s *serverSide) RemoteAddr() net.Addr               { return memAddr("client") }
func (s *serverSide) SetDeadline(t time.Time) error      { return nil }
func (s *serverSide) SetReadDeadline(t time.Time) error  { return nil }
func (s *serverSide) SetWriteDeadline(t time.Time) error { return nil }

var (
	tlsOnce   sync.Once
	tlsCert   tls.Certificate
	tlsPool   *x509.CertPool
	tlsGenErr error
)

// TestTLS returns a server certificate for the name "irc.test" generated at
// first use and a pool that trusts it.
func TestTLS() (tls.Certificate, *x509.CertPool, error) {
	tlsOnce.Do(func() {
		key, err := ecdsa.GenerateKey(elliptic.P256(), rand.Reader)
		if err != nil {
			tlsGenErr = err
			return
		}
		tmpl := &x509.Certificate{
			SerialNumber: big.NewInt(1), Subject: pkix.Name{CommonName: "irc.test"},
			NotBefore: time.Now().Add(-time.Hour), NotAfter: time.Now().Add(240 * time.Hour),
			KeyUsage: x509.KeyUsageDigitalSignature | x509.KeyUsageCertSign, ExtKeyUsage: []x509.ExtKeyUsage{x509.ExtKeyUsageServerAuth},
			BasicConstraintsValid: true, IsCA: true, DNSNames: []string{"irc.test"},
		}
		der, err := x509.CreateCertificate(rand.Reader, tmpl, tmpl, &key.PublicKey, key)
		if err != nil {
			tlsGenErr = err
			return
		}
		tlsCert = tls.Certificate{Certificate: [][]byte{der}, PrivateKey: key}
		leaf, _ := x509.ParseCertificate(der)
		tlsPool = x509.NewCertPool()
		tlsPool.AddCert(leaf)
	})
	return tlsCert, tlsPool, tlsGenErr
}

// TLSServer runs a TLS server on the harness end of a MemConn and keeps the
// decrypted lines the client sends.
type TLSServer struct {
	conn *tls.Conn
	mu   sync.Mutex
	ls   []string
	ch   chan struct{}
	Err  error
	done chan struct{}
}

// ServeTLS starts the handshake and the line reader.
func ServeTLS(mc *MemConn) *TLSServer { return ServeTLSGated(mc, nil) }

// ServeTLSGated is ServeTLS with a server that does not answer the client's hello before gate is closed (nil: at once).
func ServeTLSGated(mc *MemConn, gate <-chan struct{}) *TLSServer {
	cert, _, _ := TestTLS()
	t := &TLSServer{ch: make(chan struct{}), done: make(chan struct{})}
	t.conn = tls.Server(mc.ServerSide(), &tls.Config{Certificates: []tls.Certificate{cert}})
	go func() {
		defer close(t.done)
		if gate != nil {
			<-gate
		}
		if err := t.conn.Handshake(); err != nil {
			t.mu.Lock()
			t.Err = err
			close(t.ch)
			t.ch = make(chan struct{})
			t.mu.Unlock()
			return
		}
		rd := bufio.NewReader(t.conn)
		for {
			l, err := rd.ReadString('\n')
			if l != "" {
				t.mu.Lock()
				t.ls = append(t.ls, strings.TrimRight(l, "\r\n"))
				close(t.ch)
				t.ch = make(chan struct{})
				t.mu.Unlock()
			}
			if err != nil {
				return
			}
		}
	}()
	return t
}

// Send writes a line to the client through TLS.
func (t *TLSServer) Send(line string) error {
	_, err := t.conn.Write([]byte(line + "\r\n"))
	return err
}

// Lines returns the decrypted lines received so far.
func (t *TLSServer) Lines() []string {
	t.mu.Lock()
	defer t.mu.Unlock()
	return append([]string(nil), t.ls...)
}

// WaitLine waits until a decrypted line satisfies match (or the handshake failed / the stream ended / d passed).
func (t *TLSServer) WaitLine(d time.Duration, match func(string) bool) bool {
	dl := time.Now().Add(d)
	for {
		t.mu.Lock()
		for _, l := range t.ls {
			if match(l) {
				t.mu.Unlock()
				return true
			}
		}
		ch, err := t.ch, t.Err
		t.mu.Unlock()
		if err != nil {
			return false
		}
		tm := time.NewTimer(time.Until(dl))
		select {
		case <-ch:
			tm.Stop()
		case <-t.done:
			tm.Stop()
			t.mu.Lock()
			ok := false
			for _, l := range t.ls {
				if match(l) {
					ok = true
				}
			}
			t.mu.Unlock()
			return ok
		case <-tm.C:
			return false
		}
	}
}
