package model

import (
	"fmt"
	"math/rand"
	"reflect"
	"sort"
	"strconv"
	"strings"

	"github.com/fluffle/goirc/state"
)

// Net is a model IRC network seen from the server: ground truth plus the
// view a client can know (what the protocol has revealed to it).
type Net struct {
	r *rand.Rand

	Me     string
	MeInfo [2]string // ident, host
	Users  map[string]*NUser
	Chans  map[string]*NChan
	nickN  int

	// the client-knowable view
	VChans map[string]*VChan
	VInfo  map[string][2]string // nick -> ident, host as revealed (JOIN prefix or WHO reply)

	Names map[string]bool // every nick and channel name that has appeared in any line
	Kinds []string        // event kinds in order (coverage)
}

// NUser is a user of the network (ground truth).
type NUser struct {
	Nick, Ident, Host, Real string
}

// NChan is a channel (ground truth).
type NChan struct {
	Name    string
	Topic   string
	Modes   state.ChanMode
	Members map[string]*state.ChanPrivs // nick -> true privileges
}

// VChan is what the client can know about a channel it is on.
type VChan struct {
	Topic   string
	Modes   state.ChanMode
	Members map[string]*state.ChanPrivs // nick -> privileges as far as revealed
	// ModesAsked: the client has asked for this channel's modes since it joined (a server reveals them only then)
	ModesAsked bool
}

// NewNet builds a network with nUsers other users and nChans channels.
func NewNet(r *rand.Rand, me string, nUsers, nChans int) *Net {
	n := &Net{r: r, Me: me, MeInfo: [2]string{"ident", "host.me"}, Users: map[string]*NUser{}, Chans: map[string]*NChan{},
		VChans: map[string]*VChan{}, VInfo: map[string][2]string{}, Names: map[string]bool{me: true}}
	for i := 0; i < nUsers; i++ {
		n.addUser()
	}
	for i := 0; i < nChans; i++ {
		name := []string{"#a", "#b", "&c", "#d"}[i%4]
		ch := &NChan{Name: name, Members: map[string]*state.ChanPrivs{}}
		if r.Intn(2) == 0 {
			ch.Topic = "initial topic of " + name + []string{"", "", " ", "\t ", " :"}[r.Intn(5)]
		}
		ch.Modes.NoExternalMsg, ch.Modes.ProtectedTopic = r.Intn(2) == 0, r.Intn(2) == 0
		if r.Intn(3) == 0 {
			ch.Modes.Key = "k" + name[1:]
		}
		if r.Intn(3) == 0 {
			ch.Modes.Limit = 10 + r.Intn(50)
		}
		n.Chans[name] = ch
		n.Names[name] = true
		// some users are already there, with privileges the client will only partly see
		for _, u := range n.userList() {
			if r.Intn(2) == 0 {
				p := &state.ChanPrivs{}
				switch r.Intn(6) {
				case 0:
					p.Op = true
				case 1:
					p.Voice = true
				case 2:
					p.Op, p.Voice = true, true
				case 3:
					p.Owner, p.Op = true, true
				case 4:
					p.HalfOp = true
				}
				ch.Members[u] = p
			}
		}
	}
	return n
}

func (n *Net) addUser() *NUser {
	n.nickN++
	nick := fmt.Sprintf("u%d", n.nickN)
	switch n.nickN % 6 {
	case 0, 3:
		nick = fmt.Sprintf("U%d_", n.nickN)
	case 2:
		// RFC 2812 nicks may begin with a "special" character: [ ] \ ` _ ^ { | }
		nick = []string{"_", "[", "{", "^", "|", "`", "\\", "]", "}"}[n.nickN/6%9] + fmt.Sprintf("s%d]", n.nickN)
	case 5:
		nick = fmt.Sprintf("x-%d-", n.nickN)
	}
	u := &NUser{Nick: nick, Ident: "i" + strconv.Itoa(n.nickN), Host: fmt.Sprintf("h%d.example", n.nickN), Real: fmt.Sprintf("Real %d", n.nickN)}
	n.Users[nick] = u
	return u
}

func (n *Net) userList() []string {
	var l []string
	for k := range n.Users {
		l = append(l, k)
	}
	sort.Strings(l)
	return l
}

func (n *Net) chanList() []string {
	var l []string
	for k := range n.Chans {
		l = append(l, k)
	}
	sort.Strings(l)
	return l
}

func (n *Net) prefix(nick string) string {
	if nick == n.Me {
		return nick + "!" + n.MeInfo[0] + "@" + n.MeInfo[1]
	}
	u := n.Users[nick]
	return nick + "!" + u.Ident + "@" + u.Host
}

func highest(p *state.ChanPrivs) (string, state.ChanPrivs) {
	switch {
	case p.Owner:
		return "~", state.ChanPrivs{Owner: true}
	case p.Admin:
		return "&", state.ChanPrivs{Admin: true}
	case p.Op:
		return "@", state.ChanPrivs{Op: true}
	case p.HalfOp:
		return "%", state.ChanPrivs{HalfOp: true}
	case p.Voice:
		return "+", state.ChanPrivs{Voice: true}
	}
	return "", state.ChanPrivs{}
}

func modeString(m state.ChanMode) string {
	s := "+"
	var args []string
	for _, f := range []struct {
		on bool
		c  string
	}{{m.Private, "p"}, {m.Secret, "s"}, {m.ProtectedTopic, "t"}, {m.NoExternalMsg, "n"}, {m.Moderated, "m"}, {m.InviteOnly, "i"}, {m.OperOnly, "O"}, {m.SSLOnly, "z"}, {m.Registered, "r"}, {m.AllSSL, "Z"}} {
		if f.on {
			s += f.c
		}
	}
	if m.Key != "" {
		s += "k"
		args = append(args, m.Key)
	}
	if m.Limit != 0 {
		s += "l"
		args = append(args, strconv.Itoa(m.Limit))
	}
	if len(args) > 0 {
		s += " " + strings.Join(args, " ")
	}
	return s
}

func (n *Net) note(names ...string) {
	for _, x := range names {
		n.Names[x] = true
	}
}

func (n *Net) sharesWithMe(nick string) bool {
	for c := range n.VChans {
		if _, ok := n.Chans[c].Members[nick]; ok {
			return true
		}
	}
	return false
}

// MeJoin makes the client join channel c; returns the lines the server sends.
func (n *Net) MeJoin(c string) []string {
	ch := n.Chans[c]
	ch.Members[n.Me] = &state.ChanPrivs{}
	if len(ch.Members) == 1 {
		ch.Members[n.Me].Op = true
	}
	v := &VChan{Members: map[string]*state.ChanPrivs{}}
	n.VChans[c] = v
	var out []string
	out = append(out, fmt.Sprintf(":%s JOIN %s", n.prefix(n.Me), c))
	v.Members[n.Me] = &state.ChanPrivs{}
	if ch.Topic != "" {
		out = append(out, fmt.Sprintf(":srv 332 %s %s :%s", n.Me, c, ch.Topic))
		v.Topic = ch.Topic
	}
	var names []string
	var members []string
	for m := range ch.Members {
		members = append(members, m)
	}
	sort.Strings(members)
	for _, m := range members {
		pfx, vp := highest(ch.Members[m])
		names = append(names, pfx+m)
		vpp := vp
		v.Members[m] = &vpp
		n.note(m)
	}
	// one or more 353 lines
	per := 1 + n.r.Intn(4)
	for i := 0; i < len(names); i += per {
		j := i + per
		if j > len(names) {
			j = len(names)
		}
		trail := strings.Join(names[i:j], " ")
		if n.r.Intn(4) == 0 {
			trail += " " // some servers leave a trailing space
		}
		out = append(out, fmt.Sprintf(":srv 353 %s = %s :%s", n.Me, c, trail))
	}
	out = append(out, fmt.Sprintf(":srv 366 %s %s :End of /NAMES list.", n.Me, c))
	n.Kinds = append(n.Kinds, "me-join")
	return out
}

// Answer produces the server's replies to a line the client really sent.
func (n *Net) Answer(line string) []string {
	f := strings.Fields(line)
	if len(f) < 2 {
		return nil
	}
	switch strings.ToUpper(f[0]) {
	case "MODE":
		if len(f) == 2 {
			if ch, ok := n.Chans[f[1]]; ok {
				if v, on := n.VChans[f[1]]; on {
					v.Modes = ch.Modes
					v.ModesAsked = true
				}
				return []string{fmt.Sprintf(":srv 324 %s %s %s", n.Me, f[1], modeString(ch.Modes))}
			}
		}
	case "WHO":
		var out []string
		target := f[1]
		who := func(nick, via string) {
			var id, host, real string
			if nick == n.Me {
				id, host, real = n.MeInfo[0], n.MeInfo[1], "Real Name"
			} else if u, ok := n.Users[nick]; ok {
				id, host, real = u.Ident, u.Host, u.Real
			} else {
				return
			}
			out = append(out, fmt.Sprintf(":srv 352 %s %s %s %s srv %s H :0 %s", n.Me, via, id, host, nick, real))
			if nick != n.Me && n.sharesWithMe(nick) {
				n.VInfo[nick] = [2]string{id, host}
			}
		}
		if ch, ok := n.Chans[target]; ok {
			var ms []string
			for m := range ch.Members {
				ms = append(ms, m)
			}
			sort.Strings(ms)
			for _, m := range ms {
				who(m, target)
			}
		} else {
			who(target, "*")
		}
		out = append(out, fmt.Sprintf(":srv 315 %s %s :End of /WHO list.", n.Me, target))
		return out
	}
	return nil
}

func (n *Net) forgetChannelView(c string) {
	delete(n.VChans, c)
	for nick := range n.VInfo {
		if !n.sharesWithMe(nick) {
			delete(n.VInfo, nick)
		}
	}
}

func (n *Net) dropFromView(c, nick string) {
	if v, ok := n.VChans[c]; ok {
		delete(v.Members, nick)
	}
	if !n.sharesWithMe(nick) {
		delete(n.VInfo, nick)
	}
}

// Step performs one random network event; returns the lines the client
// sees (none for events on channels it is not on).
func (n *Net) Step() []string {
	chans := n.chanList()
	users := n.userList()
	c := chans[n.r.Intn(len(chans))]
	ch := n.Chans[c]
	_, meOn := ch.Members[n.Me]
	var others []string
	for m := range ch.Members {
		if m != n.Me {
			others = append(others, m)
		}
	}
	sort.Strings(others)
	pickOther := func() string { return others[n.r.Intn(len(others))] }
	kind := n.r.Intn(20)
	switch {
	case kind < 2 && !meOn: // I join
		return n.MeJoin(c)
	case kind < 3 && meOn: // I part
		delete(ch.Members, n.Me)
		n.forgetChannelView(c)
		n.Kinds = append(n.Kinds, "me-part")
		return []string{fmt.Sprintf(":%s PART %s :bye", n.prefix(n.Me), c)}
	case kind < 4 && meOn && len(others) > 0: // I am kicked
		k := pickOther()
		delete(ch.Members, n.Me)
		n.forgetChannelView(c)
		n.Kinds = append(n.Kinds, "me-kicked")
		return []string{fmt.Sprintf(":%s KICK %s %s :out", n.prefix(k), c, n.Me)}
	case kind < 7: // someone joins
		var cand []string
		for _, u := range users {
			if _, on := ch.Members[u]; !on {
				cand = append(cand, u)
			}
		}
		if len(cand) == 0 || n.r.Intn(5) == 0 {
			cand = []string{n.addUser().Nick}
		}
		u := cand[n.r.Intn(len(cand))]
		ch.Members[u] = &state.ChanPrivs{}
		if !meOn {
			return nil
		}
		n.VChans[c].Members[u] = &state.ChanPrivs{}
		// (the JOIN prefix also shows user@host, but the statement promises those details only "once a WHO reply
		// has arrived"; the tracker takes them from a JOIN only when the nick is new to it — not judged)
		n.note(u)
		n.Kinds = append(n.Kinds, "join")
		return []string{fmt.Sprintf(":%s JOIN %s", n.prefix(u), c)}
	case kind < 9 && len(others) > 0: // someone parts
		u := pickOther()
		pfx := n.prefix(u)
		delete(ch.Members, u)
		if !meOn {
			return nil
		}
		n.dropFromView(c, u)
		n.Kinds = append(n.Kinds, "part")
		if n.r.Intn(2) == 0 {
			return []string{fmt.Sprintf(":%s PART %s", pfx, c)}
		}
		return []string{fmt.Sprintf(":%s PART %s :see you", pfx, c)}
	case kind < 10 && len(others) > 0: // someone is kicked
		u := pickOther()
		by := n.Me
		if len(others) > 1 {
			by = pickOther()
		}
		pfx := n.prefix(by)
		delete(ch.Members, u)
		if !meOn {
			return nil
		}
		n.dropFromView(c, u)
		n.Kinds = append(n.Kinds, "kick")
		return []string{fmt.Sprintf(":%s KICK %s %s :reason %d", pfx, c, u, n.r.Intn(9))}
	case kind < 11 && len(users) > 2: // someone quits
		u := users[n.r.Intn(len(users))]
		visible := n.sharesWithMe(u)
		pfx := n.prefix(u)
		for _, cc := range n.Chans {
			delete(cc.Members, u)
		}
		delete(n.Users, u)
		if !visible {
			return nil
		}
		for _, v := range n.VChans {
			delete(v.Members, u)
		}
		delete(n.VInfo, u)
		n.Kinds = append(n.Kinds, "quit")
		return []string{fmt.Sprintf(":%s QUIT :Quit: gone", pfx)}
	case kind < 13 && len(users) > 0: // someone changes nick
		u := users[n.r.Intn(len(users))]
		n.nickN++
		neu := fmt.Sprintf("%sx%d", strings.TrimRight(u, "_0123456789x"), n.nickN)
		if n.r.Intn(4) == 0 {
			// a change of letter case only (servers treat it as a normal rename)
			if c := flipCase(u); c != u {
				if _, taken := n.Users[c]; !taken {
					neu = c
				}
			}
		}
		visible := n.sharesWithMe(u)
		pfx := n.prefix(u)
		usr := n.Users[u]
		delete(n.Users, u)
		usr.Nick = neu
		n.Users[neu] = usr
		for _, cc := range n.Chans {
			if p, ok := cc.Members[u]; ok {
				delete(cc.Members, u)
				cc.Members[neu] = p
			}
		}
		if !visible {
			return nil
		}
		for _, v := range n.VChans {
			if p, ok := v.Members[u]; ok {
				delete(v.Members, u)
				v.Members[neu] = p
			}
		}
		if inf, ok := n.VInfo[u]; ok {
			delete(n.VInfo, u)
			n.VInfo[neu] = inf
		}
		n.note(neu)
		n.Kinds = append(n.Kinds, "nick")
		if n.r.Intn(2) == 0 {
			return []string{fmt.Sprintf(":%s NICK %s", pfx, neu)}
		}
		return []string{fmt.Sprintf(":%s NICK :%s", pfx, neu)}
	case kind < 14: // I change nick
		n.nickN++
		neu := fmt.Sprintf("me%d", n.nickN)
		if n.r.Intn(4) == 0 {
			if c := flipCase(n.Me); c != n.Me {
				neu = c
			}
		}
		pfx := n.prefix(n.Me)
		old := n.Me
		for _, cc := range n.Chans {
			if p, ok := cc.Members[old]; ok {
				delete(cc.Members, old)
				cc.Members[neu] = p
			}
		}
		for _, v := range n.VChans {
			if p, ok := v.Members[old]; ok {
				delete(v.Members, old)
				v.Members[neu] = p
			}
		}
		n.Me = neu
		n.note(neu)
		n.Kinds = append(n.Kinds, "me-nick")
		return []string{fmt.Sprintf(":%s NICK %s", pfx, neu)}
	case kind < 16: // topic
		by := n.Me
		if len(others) > 0 {
			by = pickOther()
		}
		if !meOn && by == n.Me {
			return nil
		}
		ch.Topic = fmt.Sprintf("topic %d of %s", n.r.Intn(1000), c)
		switch n.r.Intn(12) {
		case 0, 1:
			ch.Topic = ""
		case 2:
			ch.Topic += "  " // topics are free text: surrounding blanks, tabs and colons belong to them
		case 3:
			ch.Topic += "\t"
		case 4:
			ch.Topic = " " + ch.Topic
		case 5:
			ch.Topic = ":" + ch.Topic + " :"
		case 6:
			ch.Topic = " "
		}
		if !meOn {
			return nil
		}
		n.VChans[c].Topic = ch.Topic
		n.Kinds = append(n.Kinds, "topic")
		return []string{fmt.Sprintf(":%s TOPIC %s :%s", n.prefix(by), c, ch.Topic)}
	default: // mode change, several letters per line
		by := "srv"
		if len(others) > 0 && n.r.Intn(2) == 0 {
			by = n.prefix(pickOther())
		}
		var v *VChan
		if meOn {
			v = n.VChans[c]
		}
		letters := ""
		var args []string
		sign := byte(0)
		emit := func(on bool, l byte) {
			s := byte('-')
			if on {
				s = '+'
			}
			if s != sign {
				letters += string(s)
				sign = s
			}
			letters += string(l)
		}
		nl := 1 + n.r.Intn(4)
		keyRemoved := false
		for i := 0; i < nl; i++ {
			on := n.r.Intn(2) == 0
			switch t := n.r.Intn(10); {
			case t < 4: // boolean channel mode
				l := "psmtnirzZO"[n.r.Intn(10)]
				emit(on, l)
				for _, m := range []*state.ChanMode{&ch.Modes, vmodes(v)} {
					if m == nil {
						continue
					}
					switch l {
					case 'p':
						m.Private = on
					case 's':
						m.Secret = on
					case 'm':
						m.Moderated = on
					case 't':
						m.ProtectedTopic = on
					case 'n':
						m.NoExternalMsg = on
					case 'i':
						m.InviteOnly = on
					case 'r':
						m.Registered = on
					case 'z':
						m.SSLOnly = on
					case 'Z':
						m.AllSSL = on
					case 'O':
						m.OperOnly = on
					}
				}
			case t < 5: // key
				if keyRemoved {
					continue
				}
				if on {
					key := fmt.Sprintf("key%d", n.r.Intn(100))
					emit(true, 'k')
					args = append(args, key)
					ch.Modes.Key = key
					if v != nil {
						v.Modes.Key = key
					}
				} else {
					// servers send the old key with -k; the tracker does not consume it, so nothing that takes an
					// argument may follow in this line (outside the claim otherwise): make it the last letter
					emit(false, 'k')
					args = append(args, "oldkey")
					ch.Modes.Key = ""
					if v != nil {
						v.Modes.Key = ""
					}
					keyRemoved = true
				}
			case t < 6: // limit
				if keyRemoved && on {
					continue
				}
				if on {
					lim := 1 + n.r.Intn(200)
					emit(true, 'l')
					args = append(args, strconv.Itoa(lim))
					ch.Modes.Limit = lim
					if v != nil {
						v.Modes.Limit = lim
					}
				} else {
					emit(false, 'l')
					ch.Modes.Limit = 0
					if v != nil {
						v.Modes.Limit = 0
					}
				}
			default: // privilege of a member
				if keyRemoved {
					continue
				}
				var ms []string
				for m := range ch.Members {
					ms = append(ms, m)
				}
				if len(ms) == 0 {
					continue
				}
				sort.Strings(ms)
				m := ms[n.r.Intn(len(ms))]
				l := "qaohv"[n.r.Intn(5)]
				emit(on, l)
				args = append(args, m)
				for _, p := range []*state.ChanPrivs{ch.Members[m], vpriv(v, m)} {
					if p == nil {
						continue
					}
					switch l {
					case 'q':
						p.Owner = on
					case 'a':
						p.Admin = on
					case 'o':
						p.Op = on
					case 'h':
						p.HalfOp = on
					case 'v':
						p.Voice = on
					}
				}
			}
			if keyRemoved {
				break
			}
		}
		if letters == "" || !meOn {
			return nil
		}
		n.Kinds = append(n.Kinds, "mode")
		line := fmt.Sprintf(":%s MODE %s %s", by, c, letters)
		if len(args) > 0 {
			line += " " + strings.Join(args, " ")
		}
		return []string{line}
	}
}

// flipCase changes the letter case of the first letter of s.
func flipCase(s string) string {
	for i := 0; i < len(s); i++ {
		c := s[i]
		switch {
		case c >= 'a' && c <= 'z':
			return s[:i] + string(c-32) + s[i+1:]
		case c >= 'A' && c <= 'Z':
			return s[:i] + string(c+32) + s[i+1:]
		}
	}
	return s
}

func vmodes(v *VChan) *state.ChanMode {
	if v == nil {
		return nil
	}
	return &v.Modes
}

func vpriv(v *VChan, m string) *state.ChanPrivs {
	if v == nil {
		return nil
	}
	return v.Members[m]
}

// CompareTracker checks a tracker against the client-knowable view for
// every name that has appeared; returns the first difference or "".
func (n *Net) CompareTracker(st state.Tracker) string {
	me := st.Me()
	if me == nil {
		return "Me() is nil"
	}
	if me.Nick != n.Me {
		return fmt.Sprintf("Me().Nick = %q, the server uses %q", me.Nick, n.Me)
	}
	var names []string
	for x := range n.Names {
		names = append(names, x)
	}
	sort.Strings(names)
	for _, x := range names {
		if _, isChan := n.Chans[x]; isChan {
			got := st.GetChannel(x)
			v, on := n.VChans[x]
			if !on {
				if got != nil {
					return fmt.Sprintf("channel %s is tracked although the client is not on it", x)
				}
				continue
			}
			if got == nil {
				return fmt.Sprintf("channel %s is not tracked although the client is on it", x)
			}
			if got.Topic != v.Topic {
				return fmt.Sprintf("channel %s topic %q, server's %q", x, got.Topic, v.Topic)
			}
			if got.Modes == nil || !reflect.DeepEqual(*got.Modes, v.Modes) {
				return fmt.Sprintf("channel %s modes %+v, revealed by the server %+v", x, got.Modes, v.Modes)
			}
			if !v.ModesAsked {
				// (compared at quiescence only: everything the client sent so far has been answered)
				return fmt.Sprintf("channel %s modes were never asked for since the client joined it: the tracker cannot hold the server's %+v", x, n.Chans[x].Modes)
			}
			if d := privMapDiff(got.Nicks, v.Members); d != "" {
				return fmt.Sprintf("channel %s members: %s", x, d)
			}
			continue
		}
		// a nick
		got := st.GetNick(x)
		shares := x == n.Me
		wantCh := map[string]*state.ChanPrivs{}
		for c, v := range n.VChans {
			if p, ok := v.Members[x]; ok {
				shares = true
				wantCh[c] = p
			}
		}
		if !shares {
			if got != nil {
				return fmt.Sprintf("nick %s is tracked although it shares no channel with the client", x)
			}
			continue
		}
		if got == nil {
			return fmt.Sprintf("nick %s is not tracked although it shares a channel with the client", x)
		}
		if d := privMapDiff(got.Channels, wantCh); d != "" {
			return fmt.Sprintf("nick %s channels: %s", x, d)
		}
		if inf, ok := n.VInfo[x]; ok && x != n.Me {
			if got.Ident != inf[0] || got.Host != inf[1] {
				return fmt.Sprintf("nick %s is %s@%s in the tracker, the server revealed %s@%s", x, got.Ident, got.Host, inf[0], inf[1])
			}
		}
	}
	return ""
}

func privMapDiff(got, want map[string]*state.ChanPrivs) string {
	for k, w := range want {
		g, ok := got[k]
		if !ok {
			return fmt.Sprintf("%s missing", k)
		}
		if g == nil || !reflect.DeepEqual(*g, *w) {
			return fmt.Sprintf("%s has privileges %+v, revealed %+v", k, g, *w)
		}
	}
	for k := range got {
		if _, ok := want[k]; !ok {
			return fmt.Sprintf("%s present but should not be", k)
		}
	}
	return ""
}
