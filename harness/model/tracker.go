package model

import (
	"fmt"
	"reflect"
	"sort"
	"strconv"
	"strings"

	"github.com/fluffle/goirc/state"

	"verif/harness/rig"
)

// TOp is one call on the Tracker interface.
type TOp struct {
	Kind string   // NewNick GetNick ReNick DelNick NickInfo NickModes NewChannel GetChannel DelChannel Topic ChannelModes Me IsOn Associate Dissociate Wipe
	A    []string // arguments in order
}

func (o TOp) String() string {
	q := make([]string, len(o.A))
	for i, a := range o.A {
		q[i] = strconv.Quote(a)
	}
	return o.Kind + "(" + strings.Join(q, ",") + ")"
}

// TRet is the observable result of a call (exactly one of the pointers is
// meaningful for the op kind).
type TRet struct {
	Nick  *state.Nick
	Chan  *state.Channel
	Privs *state.ChanPrivs
	OK    bool
}

type mNick struct {
	ident, host, name string
	modes             state.NickMode
}

type mChan struct {
	topic string
	modes state.ChanMode
}

// TModel is the plain relational model: a set of nicks, a set of channels,
// a membership relation with privileges, and the identity of "me".
type TModel struct {
	Me    string
	Nicks map[string]*mNick
	Chans map[string]*mChan
	Mem   map[[2]string]state.ChanPrivs // (channel, nick)
}

// NewTModel is the model of state.NewTracker(me).
func NewTModel(me string) *TModel {
	return &TModel{Me: me, Nicks: map[string]*mNick{me: {}}, Chans: map[string]*mChan{}, Mem: map[[2]string]state.ChanPrivs{}}
}

// Clone deep-copies the model.
func (m *TModel) Clone() *TModel {
	c := &TModel{Me: m.Me, Nicks: map[string]*mNick{}, Chans: map[string]*mChan{}, Mem: map[[2]string]state.ChanPrivs{}}
	for k, v := range m.Nicks {
		x := *v
		c.Nicks[k] = &x
	}
	for k, v := range m.Chans {
		x := *v
		c.Chans[k] = &x
	}
	for k, v := range m.Mem {
		c.Mem[k] = v
	}
	return c
}

// NickSnap is the snapshot GetNick must return (nil if untracked).
func (m *TModel) NickSnap(n string) *state.Nick {
	nk, ok := m.Nicks[n]
	if !ok {
		return nil
	}
	md := nk.modes
	out := &state.Nick{Nick: n, Ident: nk.ident, Host: nk.host, Name: nk.name, Modes: &md, Channels: map[string]*state.ChanPrivs{}}
	for k, p := range m.Mem {
		if k[1] == n {
			pp := p
			out.Channels[k[0]] = &pp
		}
	}
	return out
}

// ChanSnap is the snapshot GetChannel must return.
func (m *TModel) ChanSnap(c string) *state.Channel {
	ch, ok := m.Chans[c]
	if !ok {
		return nil
	}
	md := ch.modes
	out := &state.Channel{Name: c, Topic: ch.topic, Modes: &md, Nicks: map[string]*state.ChanPrivs{}}
	for k, p := range m.Mem {
		if k[0] == c {
			pp := p
			out.Nicks[k[1]] = &pp
		}
	}
	return out
}

func (m *TModel) memberCount(n string) int {
	c := 0
	for k := range m.Mem {
		if k[1] == n {
			c++
		}
	}
	return c
}

func (m *TModel) dropNick(n string) {
	delete(m.Nicks, n)
	for k := range m.Mem {
		if k[1] == n {
			delete(m.Mem, k)
		}
	}
}

// forgetChannel removes the channel and every other nick that is thereby
// left sharing no channel (its membership set became empty through this).
func (m *TModel) forgetChannel(c string) {
	delete(m.Chans, c)
	var members []string
	for k := range m.Mem {
		if k[0] == c {
			members = append(members, k[1])
		}
	}
	for _, n := range members {
		delete(m.Mem, [2]string{c, n})
		if n != m.Me && m.memberCount(n) == 0 {
			m.dropNick(n)
		}
	}
}

// Unspecified reports whether the outcome of a ChannelModes call depends on
// behaviour the property leaves open: a privilege change for a non-member,
// or a key removal, while arguments remain and a later letter consumes one.
func (m *TModel) Unspecified(c, modes string, args []string) bool {
	if _, ok := m.Chans[c]; !ok {
		return false
	}
	op := false
	rest := args
	ambiguous := false
	for i := 0; i < len(modes); i++ {
		switch ch := modes[i]; ch {
		case '+':
			op = true
		case '-':
			op = false
		case 'k':
			if ambiguous && len(rest) > 0 {
				return true
			}
			if op && len(rest) > 0 {
				rest = rest[1:]
			} else if !op && len(rest) > 0 {
				ambiguous = true
			}
		case 'l':
			if ambiguous && op && len(rest) > 0 {
				return true
			}
			if op && len(rest) > 0 {
				rest = rest[1:]
			}
		case 'q', 'a', 'o', 'h', 'v':
			if len(rest) == 0 {
				continue
			}
			if ambiguous {
				return true
			}
			if _, on := m.Mem[[2]string{c, rest[0]}]; on {
				rest = rest[1:]
			} else {
				ambiguous = true
			}
		}
	}
	return false
}

// Apply executes op on the model and returns what the implementation must
// return. implNil tells, for the two operations whose acceptance the
// statement leaves open (ReNick to the empty name), whether the
// implementation refused; the model then follows it.
func (m *TModel) Apply(o TOp, implNil bool) TRet {
	a := o.A
	switch o.Kind {
	case "NewNick":
		if a[0] == "" {
			return TRet{}
		}
		if _, ok := m.Nicks[a[0]]; ok {
			return TRet{}
		}
		m.Nicks[a[0]] = &mNick{}
		return TRet{Nick: m.NickSnap(a[0])}
	case "GetNick":
		return TRet{Nick: m.NickSnap(a[0])}
	case "ReNick":
		old, neu := a[0], a[1]
		nk, ok := m.Nicks[old]
		if !ok {
			return TRet{}
		}
		if _, ok := m.Nicks[neu]; ok {
			return TRet{}
		}
		if neu == "" && implNil {
			return TRet{}
		}
		delete(m.Nicks, old)
		m.Nicks[neu] = nk
		for k, p := range m.Mem {
			if k[1] == old {
				delete(m.Mem, k)
				m.Mem[[2]string{k[0], neu}] = p
			}
		}
		if m.Me == old {
			m.Me = neu
		}
		return TRet{Nick: m.NickSnap(neu)}
	case "DelNick":
		nk, ok := m.Nicks[a[0]]
		if !ok || a[0] == m.Me {
			return TRet{}
		}
		md := nk.modes
		ret := &state.Nick{Nick: a[0], Ident: nk.ident, Host: nk.host, Name: nk.name, Modes: &md}
		m.dropNick(a[0])
		return TRet{Nick: ret} // no memberships: the snapshot of the model after the deletion
	case "NickInfo":
		nk, ok := m.Nicks[a[0]]
		if !ok {
			return TRet{}
		}
		nk.ident, nk.host, nk.name = a[1], a[2], a[3]
		return TRet{Nick: m.NickSnap(a[0])}
	case "NickModes":
		nk, ok := m.Nicks[a[0]]
		if !ok {
			return TRet{}
		}
		op := false
		for i := 0; i < len(a[1]); i++ {
			switch a[1][i] {
			case '+':
				op = true
			case '-':
				op = false
			case 'B':
				nk.modes.Bot = op
			case 'i':
				nk.modes.Invisible = op
			case 'o':
				nk.modes.Oper = op
			case 'w':
				nk.modes.WallOps = op
			case 'x':
				nk.modes.HiddenHost = op
			case 'z':
				nk.modes.SSL = op
			}
		}
		return TRet{Nick: m.NickSnap(a[0])}
	case "NewChannel":
		if a[0] == "" {
			return TRet{}
		}
		if _, ok := m.Chans[a[0]]; ok {
			return TRet{}
		}
		m.Chans[a[0]] = &mChan{}
		return TRet{Chan: m.ChanSnap(a[0])}
	case "GetChannel":
		return TRet{Chan: m.ChanSnap(a[0])}
	case "DelChannel":
		ch, ok := m.Chans[a[0]]
		if !ok {
			return TRet{}
		}
		md := ch.modes
		ret := &state.Channel{Name: a[0], Topic: ch.topic, Modes: &md}
		m.forgetChannel(a[0])
		return TRet{Chan: ret} // no members: the snapshot of the model after the deletion
	case "Topic":
		ch, ok := m.Chans[a[0]]
		if !ok {
			return TRet{}
		}
		ch.topic = a[1]
		return TRet{Chan: m.ChanSnap(a[0])}
	case "ChannelModes":
		c := a[0]
		ch, ok := m.Chans[c]
		if !ok {
			return TRet{}
		}
		modes, rest := a[1], a[2:]
		op := false
		for i := 0; i < len(modes); i++ {
			switch x := modes[i]; x {
			case '+':
				op = true
			case '-':
				op = false
			case 'i':
				ch.modes.InviteOnly = op
			case 'm':
				ch.modes.Moderated = op
			case 'n':
				ch.modes.NoExternalMsg = op
			case 'p':
				ch.modes.Private = op
			case 'r':
				ch.modes.Registered = op
			case 's':
				ch.modes.Secret = op
			case 't':
				ch.modes.ProtectedTopic = op
			case 'z':
				ch.modes.SSLOnly = op
			case 'Z':
				ch.modes.AllSSL = op
			case 'O':
				ch.modes.OperOnly = op
			case 'k':
				if op && len(rest) > 0 {
					ch.modes.Key, rest = rest[0], rest[1:]
				} else if !op {
					ch.modes.Key = ""
				}
			case 'l':
				if op && len(rest) > 0 {
					ch.modes.Limit, _ = strconv.Atoi(rest[0])
					rest = rest[1:]
				} else if !op {
					ch.modes.Limit = 0
				}
			case 'q', 'a', 'o', 'h', 'v':
				if len(rest) == 0 {
					continue
				}
				key := [2]string{c, rest[0]}
				if p, on := m.Mem[key]; on {
					switch x {
					case 'q':
						p.Owner = op
					case 'a':
						p.Admin = op
					case 'o':
						p.Op = op
					case 'h':
						p.HalfOp = op
					case 'v':
						p.Voice = op
					}
					m.Mem[key] = p
					rest = rest[1:]
				}
			}
		}
		return TRet{Chan: m.ChanSnap(c)}
	case "Me":
		return TRet{Nick: m.NickSnap(m.Me)}
	case "IsOn":
		if p, ok := m.Mem[[2]string{a[0], a[1]}]; ok {
			return TRet{Privs: &p, OK: true}
		}
		return TRet{}
	case "Associate":
		if _, ok := m.Chans[a[0]]; !ok {
			return TRet{}
		}
		if _, ok := m.Nicks[a[1]]; !ok {
			return TRet{}
		}
		key := [2]string{a[0], a[1]}
		if _, on := m.Mem[key]; on {
			return TRet{}
		}
		m.Mem[key] = state.ChanPrivs{}
		return TRet{Privs: &state.ChanPrivs{}}
	case "Dissociate":
		key := [2]string{a[0], a[1]}
		if _, on := m.Mem[key]; !on {
			return TRet{}
		}
		if a[1] == m.Me {
			m.forgetChannel(a[0])
		} else {
			delete(m.Mem, key)
			if m.memberCount(a[1]) == 0 {
				m.dropNick(a[1])
			}
		}
		return TRet{}
	case "String":
		return TRet{}
	case "Wipe":
		var cs []string
		for c := range m.Chans {
			cs = append(cs, c)
		}
		for _, c := range cs {
			m.forgetChannel(c)
		}
		return TRet{}
	}
	panic("unknown tracker op " + o.Kind)
}

// Canon is a canonical string encoding of the model state.
func (m *TModel) Canon() string {
	b := make([]byte, 0, 256)
	q := func(s string) {
		b = strconv.AppendInt(b, int64(len(s)), 10)
		b = append(b, ':')
		b = append(b, s...)
	}
	bit := func(v bool) {
		if v {
			b = append(b, '1')
		} else {
			b = append(b, '0')
		}
	}
	b = append(b, "me="...)
	q(m.Me)
	ns := make([]string, 0, len(m.Nicks))
	for n := range m.Nicks {
		ns = append(ns, n)
	}
	sort.Strings(ns)
	for _, n := range ns {
		k := m.Nicks[n]
		b = append(b, ";N"...)
		q(n)
		q(k.ident)
		q(k.host)
		q(k.name)
		md := k.modes
		bit(md.Bot)
		bit(md.Invisible)
		bit(md.Oper)
		bit(md.WallOps)
		bit(md.HiddenHost)
		bit(md.SSL)
	}
	cs := make([]string, 0, len(m.Chans))
	for c := range m.Chans {
		cs = append(cs, c)
	}
	sort.Strings(cs)
	for _, c := range cs {
		k := m.Chans[c]
		b = append(b, ";C"...)
		q(c)
		q(k.topic)
		md := k.modes
		for _, v := range []bool{md.Private, md.Secret, md.ProtectedTopic, md.NoExternalMsg, md.Moderated, md.InviteOnly, md.OperOnly, md.SSLOnly, md.Registered, md.AllSSL} {
			bit(v)
		}
		q(md.Key)
		b = strconv.AppendInt(b, int64(md.Limit), 10)
	}
	ms := make([][2]string, 0, len(m.Mem))
	for k := range m.Mem {
		ms = append(ms, k)
	}
	sort.Slice(ms, func(i, j int) bool {
		if ms[i][0] != ms[j][0] {
			return ms[i][0] < ms[j][0]
		}
		return ms[i][1] < ms[j][1]
	})
	for _, k := range ms {
		p := m.Mem[k]
		b = append(b, ";M"...)
		q(k[0])
		q(k[1])
		bit(p.Owner)
		bit(p.Admin)
		bit(p.Op)
		bit(p.HalfOp)
		bit(p.Voice)
	}
	return string(b)
}

// RunOnTracker performs op on a real tracker.
func RunOnTracker(st state.Tracker, o TOp) TRet {
	rig.CallTick()
	a := o.A
	switch o.Kind {
	case "NewNick":
		return TRet{Nick: st.NewNick(a[0])}
	case "GetNick":
		return TRet{Nick: st.GetNick(a[0])}
	case "ReNick":
		return TRet{Nick: st.ReNick(a[0], a[1])}
	case "DelNick":
		return TRet{Nick: st.DelNick(a[0])}
	case "NickInfo":
		return TRet{Nick: st.NickInfo(a[0], a[1], a[2], a[3])}
	case "NickModes":
		return TRet{Nick: st.NickModes(a[0], a[1])}
	case "NewChannel":
		return TRet{Chan: st.NewChannel(a[0])}
	case "GetChannel":
		return TRet{Chan: st.GetChannel(a[0])}
	case "DelChannel":
		return TRet{Chan: st.DelChannel(a[0])}
	case "Topic":
		return TRet{Chan: st.Topic(a[0], a[1])}
	case "ChannelModes":
		return TRet{Chan: st.ChannelModes(a[0], a[1], a[2:]...)}
	case "Me":
		return TRet{Nick: st.Me()}
	case "IsOn":
		p, ok := st.IsOn(a[0], a[1])
		return TRet{Privs: p, OK: ok}
	case "Associate":
		return TRet{Privs: st.Associate(a[0], a[1])}
	case "Dissociate":
		st.Dissociate(a[0], a[1])
		return TRet{}
	case "Wipe":
		st.Wipe()
		return TRet{}
	case "String":
		_ = st.String()
		return TRet{}
	}
	panic("unknown tracker op " + o.Kind)
}

func nickEq(a, b *state.Nick, ignoreChannels bool) bool {
	if (a == nil) != (b == nil) {
		return false
	}
	if a == nil {
		return true
	}
	if a.Nick != b.Nick || a.Ident != b.Ident || a.Host != b.Host || a.Name != b.Name {
		return false
	}
	if (a.Modes == nil) != (b.Modes == nil) || (a.Modes != nil && !reflect.DeepEqual(*a.Modes, *b.Modes)) {
		return false
	}
	if ignoreChannels {
		return true
	}
	return privMapEq(a.Channels, b.Channels)
}

func privMapEq(a, b map[string]*state.ChanPrivs) bool {
	if len(a) != len(b) {
		return false
	}
	for k, p := range a {
		q, ok := b[k]
		if !ok || (p == nil) != (q == nil) || (p != nil && !reflect.DeepEqual(*p, *q)) {
			return false
		}
	}
	return true
}

func chanEq(a, b *state.Channel, ignoreNicks bool) bool {
	if (a == nil) != (b == nil) {
		return false
	}
	if a == nil {
		return true
	}
	if a.Name != b.Name || a.Topic != b.Topic {
		return false
	}
	if (a.Modes == nil) != (b.Modes == nil) || (a.Modes != nil && !reflect.DeepEqual(*a.Modes, *b.Modes)) {
		return false
	}
	if ignoreNicks {
		return true
	}
	return privMapEq(a.Nicks, b.Nicks)
}

// RetEq compares an implementation result with the model's for op kind.
func RetEq(kind string, impl, want TRet) bool {
	switch kind {
	case "DelNick":
		// the snapshot of a deleted nick is that of the model after the deletion: the attributes, and no memberships
		return nickEq(impl.Nick, want.Nick, true) && (impl.Nick == nil || len(impl.Nick.Channels) == 0)
	case "DelChannel":
		return chanEq(impl.Chan, want.Chan, true) && (impl.Chan == nil || len(impl.Chan.Nicks) == 0)
	case "NewNick", "GetNick", "ReNick", "NickInfo", "NickModes", "Me":
		return nickEq(impl.Nick, want.Nick, false)
	case "NewChannel", "GetChannel", "Topic", "ChannelModes":
		return chanEq(impl.Chan, want.Chan, false)
	case "IsOn":
		if impl.OK != want.OK {
			return false
		}
		if !want.OK {
			return impl.Privs == nil
		}
		return impl.Privs != nil && *impl.Privs == *want.Privs
	case "Associate":
		if (impl.Privs == nil) != (want.Privs == nil) {
			return false
		}
		return impl.Privs == nil || *impl.Privs == *want.Privs
	}
	return true
}

// RetString renders a result for reports and canonical outputs.
func RetString(r TRet) string {
	var b strings.Builder
	if r.Nick != nil {
		fmt.Fprintf(&b, "Nick{%q %q %q %q %v %s}", r.Nick.Nick, r.Nick.Ident, r.Nick.Host, r.Nick.Name, derefNM(r.Nick.Modes), privMapStr(r.Nick.Channels))
	}
	if r.Chan != nil {
		fmt.Fprintf(&b, "Chan{%q %q %v %s}", r.Chan.Name, r.Chan.Topic, derefCM(r.Chan.Modes), privMapStr(r.Chan.Nicks))
	}
	if r.Privs != nil {
		fmt.Fprintf(&b, "Privs%v", *r.Privs)
	}
	if r.OK {
		b.WriteString(" ok")
	}
	if b.Len() == 0 {
		return "nil"
	}
	return b.String()
}

func derefNM(m *state.NickMode) interface{} {
	if m == nil {
		return "<nil>"
	}
	return *m
}

func derefCM(m *state.ChanMode) interface{} {
	if m == nil {
		return "<nil>"
	}
	return *m
}

func privMapStr(m map[string]*state.ChanPrivs) string {
	var ks []string
	for k := range m {
		ks = append(ks, k)
	}
	sort.Strings(ks)
	var b strings.Builder
	b.WriteString("{")
	for _, k := range ks {
		if m[k] == nil {
			fmt.Fprintf(&b, "%q:<nil> ", k)
		} else {
			fmt.Fprintf(&b, "%q:%v ", k, *m[k])
		}
	}
	b.WriteString("}")
	return b.String()
}

// Sweep compares every query over the universe with the model; returns the
// first difference or "".
func Sweep(st state.Tracker, m *TModel, nicks, chans []string) string {
	rig.CallTick()
	if got, want := (TRet{Nick: st.Me()}), (TRet{Nick: m.NickSnap(m.Me)}); !RetEq("Me", got, want) {
		return fmt.Sprintf("Me() = %s, model %s", RetString(got), RetString(want))
	}
	for _, n := range nicks {
		got, want := TRet{Nick: st.GetNick(n)}, TRet{Nick: m.NickSnap(n)}
		if !RetEq("GetNick", got, want) {
			return fmt.Sprintf("GetNick(%q) = %s, model %s", n, RetString(got), RetString(want))
		}
	}
	for _, c := range chans {
		got, want := TRet{Chan: st.GetChannel(c)}, TRet{Chan: m.ChanSnap(c)}
		if !RetEq("GetChannel", got, want) {
			return fmt.Sprintf("GetChannel(%q) = %s, model %s", c, RetString(got), RetString(want))
		}
		for _, n := range nicks {
			p, ok := st.IsOn(c, n)
			got := TRet{Privs: p, OK: ok}
			want := m.Apply(TOp{Kind: "IsOn", A: []string{c, n}}, false)
			if !RetEq("IsOn", got, want) {
				return fmt.Sprintf("IsOn(%q,%q) = %s, model %s", c, n, RetString(got), RetString(want))
			}
		}
	}
	return ""
}
