// Package model holds the specification-side models: generators that own
// the components of what they emit, reference semantics written from the
// property statements, never from the implementation.
package model

import (
	"fmt"
	"math/rand"
	"sort"
	"strings"
)

// Tag is one message tag as the generator owns it.
type Tag struct {
	Key   string
	Value string
	Form  int // 0 = "key", 1 = "key=", 2 = "key=value"
}

// Msg is a well-formed IRC message described by its components.
type Msg struct {
	HasTags  bool
	Tags     []Tag
	SrcKind  int // 0 none, 1 server name, 2 nick!user@host, 3 bare nick, 4 nick@host
	Nick     string
	User     string
	Host     string
	Verb     string   // as sent (any case)
	Middles  []string // as sent
	Spaces   []int    // number of spaces before each parameter (len = len(Middles) + trailing?1:0), each >= 1
	HasTrail bool
	Trail    string
	// CTCP intent (only with verb PRIVMSG/NOTICE, one middle, trailing built from these)
	CTCP     bool
	CTCPVerb string
	CTCPText string
}

// Expect is what a correct parser must produce for a Msg.
type Expect struct {
	HasTags                bool
	Tags                   map[string]string
	Nick, Ident, Host, Src string
	Cmd, Raw               string
	Args                   []string
	Text                   string
	JudgeTP                bool // Target/Public judged
	Public                 bool
	Target                 string
	Class                  string // coverage class
}

var tagEscaper = strings.NewReplacer("\\", "\\\\", ";", "\\:", " ", "\\s", "\r", "\\r", "\n", "\\n")

// EscapeTagValue applies the five IRCv3 escapes.
func EscapeTagValue(v string) string { return tagEscaper.Replace(v) }

// Wire serialises the message (without CRLF).
func (m *Msg) Wire() string {
	var b strings.Builder
	if m.HasTags {
		b.WriteByte('@')
		for i, t := range m.Tags {
			if i > 0 {
				b.WriteByte(';')
			}
			b.WriteString(t.Key)
			switch t.Form {
			case 1:
				b.WriteByte('=')
			case 2:
				b.WriteByte('=')
				b.WriteString(EscapeTagValue(t.Value))
			}
		}
		b.WriteByte(' ')
	}
	if src := m.src(); src != "" {
		b.WriteByte(':')
		b.WriteString(src)
		b.WriteByte(' ')
	}
	b.WriteString(m.Verb)
	k := 0
	sp := func() {
		n := 1
		if k < len(m.Spaces) && m.Spaces[k] > 0 {
			n = m.Spaces[k]
		}
		k++
		for i := 0; i < n; i++ {
			b.WriteByte(' ')
		}
	}
	for _, p := range m.Middles {
		sp()
		b.WriteString(p)
	}
	if m.HasTrail {
		sp()
		b.WriteByte(':')
		b.WriteString(m.trailing())
	}
	return b.String()
}

func (m *Msg) src() string {
	switch m.SrcKind {
	case 1:
		return m.Host
	case 2:
		return m.Nick + "!" + m.User + "@" + m.Host
	case 3:
		return m.Nick
	case 4:
		return m.Nick + "@" + m.Host
	}
	return ""
}

func (m *Msg) trailing() string {
	if m.CTCP {
		return "\x01" + m.CTCPVerb + " " + m.CTCPText + "\x01"
	}
	return m.Trail
}

func isChanByte(c byte) bool { return c == '#' || c == '&' || c == '+' || c == '!' }

// Expected states, independently of any parser, what the parsed line must be.
func (m *Msg) Expected() *Expect {
	e := &Expect{Raw: m.Wire()}
	if m.HasTags {
		e.HasTags = true
		e.Tags = map[string]string{}
		for _, t := range m.Tags {
			if t.Form == 2 {
				e.Tags[t.Key] = t.Value
			} else {
				e.Tags[t.Key] = ""
			}
		}
	}
	e.Src = m.src()
	switch m.SrcKind {
	case 2:
		e.Nick, e.Ident, e.Host = m.Nick, m.User, m.Host
	case 1, 3, 4:
		e.Host = e.Src
	}
	e.Cmd = strings.ToUpper(m.Verb)
	e.Args = append([]string{}, m.Middles...)
	if m.HasTrail {
		e.Args = append(e.Args, m.trailing())
	}
	ctcpKind := "-"
	if m.CTCP {
		target := m.Middles[0]
		switch {
		case e.Cmd == "PRIVMSG" && m.CTCPVerb == "ACTION":
			e.Cmd = "ACTION"
			e.Args = []string{target, m.CTCPText}
			ctcpKind = "action"
		case e.Cmd == "PRIVMSG":
			e.Cmd = "CTCP"
			e.Args = []string{m.CTCPVerb, target, m.CTCPText}
			ctcpKind = "ctcp"
		default:
			e.Cmd = "CTCPREPLY"
			e.Args = []string{m.CTCPVerb, target, m.CTCPText}
			ctcpKind = "ctcpreply"
		}
	}
	if n := len(e.Args); n > 0 {
		e.Text = e.Args[n-1]
	}
	// Target / Public as documented on the methods.
	e.JudgeTP = true
	switch e.Cmd {
	case "PRIVMSG", "NOTICE", "ACTION":
		if len(e.Args) > 0 && e.Args[0] != "" {
			e.Public = isChanByte(e.Args[0][0])
		}
		if e.Public {
			e.Target = e.Args[0]
		} else {
			e.Target = e.Nick
		}
	case "CTCP", "CTCPREPLY":
		if len(e.Args) > 1 && e.Args[1] != "" {
			e.Public = isChanByte(e.Args[1][0])
			if e.Public {
				e.Target = e.Args[1]
			} else {
				e.Target = e.Nick
			}
		} else {
			// a literal CTCP/CTCPREPLY verb without a target parameter: the
			// documentation does not say; only "no panic" (C02) applies
			e.JudgeTP = false
		}
	default:
		if len(e.Args) > 0 {
			e.Target = e.Args[0]
		}
	}
	e.Class = m.class(ctcpKind)
	return e
}

func (m *Msg) class(ctcp string) string {
	tagShape := "notags"
	if m.HasTags {
		set := map[string]bool{}
		for _, t := range m.Tags {
			switch t.Form {
			case 0:
				set["k"] = true
			case 1:
				set["k="] = true
			default:
				s := "v"
				for _, c := range []struct{ ch, n string }{{"\\", "b"}, {";", "c"}, {" ", "s"}, {"\r", "r"}, {"\n", "n"}, {"=", "e"}} {
					if strings.Contains(t.Value, c.ch) {
						s += c.n
					}
				}
				set[s] = true
			}
		}
		var l []string
		for k := range set {
			l = append(l, k)
		}
		sort.Strings(l)
		tagShape = fmt.Sprintf("t%d[%s]", min(len(m.Tags), 3), strings.Join(l, ","))
	}
	trail := "notrail"
	if m.HasTrail && !m.CTCP {
		switch {
		case m.Trail == "":
			trail = "empty"
		case strings.Contains(m.Trail, " :"):
			trail = "has-sp-colon"
		case strings.Contains(m.Trail, " "):
			trail = "spaces"
		default:
			trail = "word"
		}
	} else if m.CTCP {
		trail = "ctcp"
	}
	multi := "1sp"
	for _, s := range m.Spaces {
		if s > 1 {
			multi = "Nsp"
		}
	}
	ar := len(m.Middles)
	arb := fmt.Sprint(ar)
	if ar > 3 && ar < 14 {
		arb = "4-13"
	}
	verb := "letters"
	if len(m.Verb) == 3 && m.Verb[0] >= '0' && m.Verb[0] <= '9' {
		verb = "numeric"
	} else if m.Verb != strings.ToUpper(m.Verb) {
		verb = "mixedcase"
	}
	return fmt.Sprintf("%s|src%d|%s|mid%s|%s|%s|%s", tagShape, m.SrcKind, verb, arb, trail, ctcp, multi)
}

// ---- generators ----

var (
	paramAlphabet = []string{"a", "b", "Z", "0", "9", "#", "&", "+", "!", ":", "=", ";", "@", "\\", "\x01", "\x02", "\x7f", "-", "_", "[", "]", "{", "}", "|", "^", "~", "*", "?", ".", ",", "é", "日", "\x1f", "/", "\xe9", "\xff", "\x80\x80", "\xc3", "\xa0"}
	trailAlphabet = append(append([]string{}, paramAlphabet...), " ", " ", " :", "  ", "\t")
	valAlphabet   = []string{"a", "b", "1", "\\", "\\", ";", " ", "\r", "\n", "=", ":", "s", "n", "r", "\\s", "\\:", "\\\\", "/", "é", "\x01", ",", "@", "\xe9", "\xff\xfe", "\xc3"}
	keyAlphabet   = "abcdefghijklmnopqrstuvwxyz0123456789-"
	verbPool      = []string{"PRIVMSG", "NOTICE", "privmsg", "Notice", "JOIN", "PART", "MODE", "mode", "TOPIC", "KICK", "QUIT", "NICK", "PING", "PONG", "001", "002", "005", "324", "332", "352", "353", "366", "433", "903", "671", "311", "ERROR", "INVITE", "WALLOPS", "CAP", "AUTHENTICATE", "ACTION", "CTCP", "CTCPREPLY", "FOO", "x", "Ab"}
	nickPool      = []string{"nick", "a", "Z[]", "n-1", "{x}", "me", "bob`", "_x_"}
	userPool      = []string{"user", "~u", "u!v", "i.d", "x"}
	hostPool      = []string{"host", "irc.example.org", "1.2.3.4", "a:b::1", "h-1.x", "host/cloak"}
	ctcpVerbPool  = []string{"ACTION", "VERSION", "PING", "TIME", "DCC", "X"}
)

func randFrom(r *rand.Rand, alpha []string, minN, maxN int) string {
	n := minN
	if maxN > minN {
		n += r.Intn(maxN - minN + 1)
	}
	var b strings.Builder
	for i := 0; i < n; i++ {
		b.WriteString(alpha[r.Intn(len(alpha))])
	}
	return b.String()
}

func randKey(r *rand.Rand) string {
	n := 1 + r.Intn(6)
	b := make([]byte, n)
	for i := range b {
		b[i] = keyAlphabet[r.Intn(len(keyAlphabet))]
	}
	k := string(b)
	switch r.Intn(6) {
	case 0:
		k = "+" + k
	case 1:
		k = "example.com/" + k
	}
	return k
}

// fixMiddle makes p a legal middle parameter: non-empty, no leading ':'.
func fixMiddle(p string) string {
	if p == "" {
		return "x"
	}
	if p[0] == ':' {
		return "x" + p
	}
	return p
}

func looksCTCP(s string) bool {
	return len(s) > 2 && strings.HasPrefix(s, "\x01") && strings.HasSuffix(s, "\x01")
}

// RandMsg draws a well-formed message.
func RandMsg(r *rand.Rand) *Msg {
	m := &Msg{}
	if r.Intn(3) == 0 {
		m.HasTags = true
		n := 1 + r.Intn(4)
		seen := map[string]bool{}
		for i := 0; i < n; i++ {
			k := randKey(r)
			if seen[k] {
				continue
			}
			seen[k] = true
			t := Tag{Key: k, Form: r.Intn(4)}
			if t.Form >= 2 {
				t.Form = 2
				t.Value = randFrom(r, valAlphabet, 1, 8)
			}
			m.Tags = append(m.Tags, t)
		}
	}
	m.SrcKind = []int{0, 1, 2, 2, 2, 3, 4}[r.Intn(7)]
	m.Nick = nickPool[r.Intn(len(nickPool))]
	m.User = userPool[r.Intn(len(userPool))]
	m.Host = hostPool[r.Intn(len(hostPool))]
	if m.SrcKind == 1 {
		m.Host = []string{"irc.example.org", "srv", "a.b.c", "irc6.example:net"}[r.Intn(4)]
	}
	m.Verb = verbPool[r.Intn(len(verbPool))]
	if r.Intn(8) == 0 {
		m.Verb = fmt.Sprintf("%03d", r.Intn(1000))
	}
	up := strings.ToUpper(m.Verb)
	if (up == "PRIVMSG" || up == "NOTICE") && r.Intn(3) == 0 {
		m.CTCP = true
		m.CTCPVerb = ctcpVerbPool[r.Intn(len(ctcpVerbPool))]
		m.CTCPText = strings.ReplaceAll(randFrom(r, trailAlphabet, 1, 12), "\x01", "x")
		m.CTCPText = strings.ReplaceAll(m.CTCPText, "\t", "x")
		m.Middles = []string{fixMiddle([]string{"#chan", "&c", "+c", "!c", "me", "Nick"}[r.Intn(6)])}
		m.HasTrail = true
		m.Spaces = []int{1 + r.Intn(2)*r.Intn(3), 1 + r.Intn(2)*r.Intn(3)}
		return m
	}
	nm := []int{0, 1, 1, 2, 2, 3, 4, 7, 13, 14}[r.Intn(10)]
	for i := 0; i < nm; i++ {
		var p string
		if i == 0 && r.Intn(2) == 0 {
			p = []string{"#chan", "&c", "+c", "!c", "me", "Nick", "*"}[r.Intn(7)]
		} else {
			p = randFrom(r, paramAlphabet, 1, 6)
		}
		if r.Intn(60) == 0 {
			p = strings.Repeat(p, 80)
		}
		m.Middles = append(m.Middles, fixMiddle(p))
	}
	if r.Intn(3) != 0 {
		m.HasTrail = true
		switch r.Intn(6) {
		case 0:
			m.Trail = ""
		case 1:
			m.Trail = randFrom(r, trailAlphabet, 1, 4) + " :" + randFrom(r, trailAlphabet, 0, 4)
		case 2:
			m.Trail = strings.Repeat(randFrom(r, trailAlphabet, 1, 8), 1+r.Intn(90))
		default:
			m.Trail = randFrom(r, trailAlphabet, 1, 20)
		}
		m.Trail = strings.ReplaceAll(m.Trail, "\t", " ")
	}
	np := len(m.Middles)
	if m.HasTrail {
		np++
	}
	for i := 0; i < np; i++ {
		s := 1
		if r.Intn(5) == 0 {
			s = 2 + r.Intn(3)
		}
		m.Spaces = append(m.Spaces, s)
	}
	m.avoidAccidentalCTCP()
	return m
}

// avoidAccidentalCTCP keeps non-CTCP messages outside the CTCP pattern
// (payloads without text or with extra \x01 bytes are outside the claim).
func (m *Msg) avoidAccidentalCTCP() {
	up := strings.ToUpper(m.Verb)
	if up != "PRIVMSG" && up != "NOTICE" || m.CTCP {
		return
	}
	if len(m.Middles) >= 2 {
		if looksCTCP(m.Middles[1]) {
			m.Middles[1] += "x"
		}
	} else if len(m.Middles) == 1 && m.HasTrail && looksCTCP(m.Trail) {
		m.Trail += "x"
	}
}

// ProductMsgs enumerates the small exhaustive product: tag sections x
// sources x verbs x middle lists up to maxLen from a pool x trailings, plus
// the CTCP forms. f is called for every message.
func ProductMsgs(maxLen int, f func(*Msg)) (n int) {
	tagSecs := [][]Tag{nil,
		{{Key: "a", Value: "b\\c; d\r\n", Form: 2}},
		{{Key: "k", Form: 0}, {Key: "e", Form: 1}, {Key: "x/y", Value: "1=2", Form: 2}}}
	type src struct {
		kind    int
		n, u, h string
	}
	srcs := []src{{0, "", "", ""}, {1, "", "", "irc.srv.org"}, {2, "nick", "u!s", "ho.st"}, {3, "nick", "", ""}, {4, "nick", "", "ho.st"}}
	verbs := []string{"PRIVMSG", "notice", "Join", "353", "CTCP", "ACTION"}
	pool := []string{"#c", "me", "a:b", "+v", "\x01x", "=", "é"}
	trails := []string{"", "w", "two words", "a :b", " lead"}
	var lists [][]string
	var rec func(cur []string)
	rec = func(cur []string) {
		lists = append(lists, append([]string{}, cur...))
		if len(cur) == maxLen {
			return
		}
		for _, p := range pool {
			rec(append(cur, p))
		}
	}
	rec(nil)
	for ti, ts := range tagSecs {
		for _, s := range srcs {
			for _, v := range verbs {
				for _, l := range lists {
					for tr := -1; tr < len(trails); tr++ {
						m := &Msg{HasTags: ti > 0, Tags: ts, SrcKind: s.kind, Nick: s.n, User: s.u, Host: s.h, Verb: v, Middles: l}
						if tr >= 0 {
							m.HasTrail = true
							m.Trail = trails[tr]
						}
						m.avoidAccidentalCTCP()
						f(m)
						n++
					}
				}
				up := strings.ToUpper(v)
				if up == "PRIVMSG" || up == "NOTICE" {
					for _, cv := range []string{"ACTION", "VERSION", "PING"} {
						for _, tgt := range []string{"#c", "me", "&x", "+y", "!z"} {
							for _, txt := range []string{"t", "some text", " lead", "a :b"} {
								m := &Msg{HasTags: ti > 0, Tags: ts, SrcKind: s.kind, Nick: s.n, User: s.u, Host: s.h, Verb: v,
									Middles: []string{tgt}, HasTrail: true, CTCP: true, CTCPVerb: cv, CTCPText: txt}
								f(m)
								n++
							}
						}
					}
				}
			}
		}
	}
	return n
}
