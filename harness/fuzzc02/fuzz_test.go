// Package fuzzc02 is the coverage-guided stage of C02: Go's native fuzzer
// drives ParseLine and the Line accessors; a panic is recorded (input and
// innermost library frame) in $VERIF_FUZZ_OUT instead of failing, so that
// every distinct site is collected within the execution budget.
package fuzzc02

import (
	"fmt"
	"os"
	"runtime"
	"strings"
	"sync"
	"testing"

	"github.com/fluffle/goirc/client"
)

var (
	outMu   sync.Mutex
	seenSig = map[string]int{}
)

func record(input string, v interface{}, site string) {
	outMu.Lock()
	defer outMu.Unlock()
	sig := site + "|" + fmt.Sprint(v)
	seenSig[sig]++
	if seenSig[sig] > 3 {
		return
	}
	path := os.Getenv("VERIF_FUZZ_OUT")
	if path == "" {
		return
	}
	f, err := os.OpenFile(path, os.O_CREATE|os.O_APPEND|os.O_WRONLY, 0o644)
	if err != nil {
		return
	}
	fmt.Fprintf(f, "%q\t%s\t%v\n", input, site, v)
	f.Close()
}

func libFrame() string {
	var pcs [48]uintptr
	n := runtime.Callers(3, pcs[:])
	fr := runtime.CallersFrames(pcs[:n])
	for {
		f, more := fr.Next()
		if strings.Contains(f.Function, "fluffle/goirc/") {
			return f.Function[strings.LastIndex(f.Function, "/")+1:]
		}
		if !more {
			return "?"
		}
	}
}

func FuzzParseLine(f *testing.F) {
	for _, s := range []string{
		"", "PING :x", ":n!u@h PRIVMSG #c :hello", "@a=b;c :srv 001 me :Welcome me!u@h", ":n!u@h PRIVMSG me :\x01ACTION waves\x01",
		":n!u@h NOTICE me :\x01PING 1 2\x01", "@a ", ":src ", "PRIVMSG x", ":a@b!c X", "ACTION", "CTCP x", "CTCPREPLY a", " ", "\t", "@@ :", "@a=b\\\\c X y :z",
		":srv 353 me = #c :@a +b c", ":srv MODE #c +ov a b", "CAP * LS :sasl", "AUTHENTICATE +",
	} {
		f.Add(s)
	}
	f.Fuzz(func(t *testing.T, s string) {
		if strings.ContainsAny(s, "\n") {
			return
		}
		defer func() {
			if v := recover(); v != nil {
				record(s, v, libFrame())
			}
		}()
		l := client.ParseLine(s)
		if l != nil {
			_ = l.Text()
			_ = l.Public()
			_ = l.Target()
			c := l.Copy()
			_ = c.Text()
		}
	})
}
