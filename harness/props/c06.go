package props

import (
	"context"
	"crypto/tls"
	"fmt"
	"runtime"
	"strings"
	"sync"
	"sync/atomic"
	"time"

	"github.com/fluffle/goirc/client"

	"verif/harness/rig"
)

func init() {
	register(&Property{
		ID:    "C06",
		Yield: true,
		Level: "fault_enumeration",
		Rule: "fault enumeration over lifecycle scenarios on an in-memory transport: configurations {tracking, client pings 0/20ms, plain/context-aware dialer, Connect/ConnectContext} x end causes {Close from 1, 3, 8 goroutines, " +
			"EOF, read error, write error, context cancellation} x every unordered pair of causes fired from one barrier x traffic {idle, inbound backlog, outbound backlog by handler or user goroutines, handler on a gate / blocked in a send} " +
			"x server {reading, not reading, bursts} x second Connect while connected (idle/busy), plus failing connects (no server, dial refused, refused-then-retry) and Close on an unconnected client. Counters and Connected() samples taken inside " +
			"REGISTER/CONNECTED/DISCONNECTED handlers and return values are judged at quiescence (goroutine census shows no library goroutine). Poll mode: Connected() sampled 40k..400k times inside REGISTER/CONNECTED and by a user goroutine while 1..3 goroutines are being refused a second Connect. Loopback mode: event counts over real TCP sockets (see C07). Failing-connect kinds also: the connect context ending during a TLS handshake (events must agree with Connect's result) and 2..5 simultaneous Connect calls on an unconnected client (one connection, the rest refused); supervised-reconnect rounds with DISCONNECTED counts. Poll mode ends every other round by server EOF while four application goroutines keep calling Connected() and String() (exactly one DISCONNECTED, Connected() false). Linger rounds: the DISCONNECTED handler reconnects and stays busy while the second connection registers, is renamed and ends (EOF, read error, Close, cancel): two REGISTER, two DISCONNECTED, a second connection never reported as ended is a violation with a dead-state proof. y- batches: the same against the schedule-perturbed copy (DESIGN 10.10). distinct_nontrivial = distinct (cause set, library goroutines blocked on a queue/gate/socket at teardown) fingerprints.",
		Assumptions: []string{
			"when the reconnect is issued from inside the DISCONNECTED handler, a coincident public Close is not generated (it may legitimately close the new connection)",
			"a disconnect that never completes is reported under C07; here it makes the scenario inconclusive",
		},
		Plan: func(tier string, seed int64) []Batch {
			var bs []Batch
			for _, p := range []int{1, 2, 4, 16} {
				bs = append(bs, Batch{Name: fmt.Sprintf("grid-p%d", p), Args: map[string]string{"procs": fmt.Sprint(p), "mode": "grid"}, Race: true, Procs: p, Weight: min(p, 4)})
			}
			bs = append(bs, Batch{Name: "failures", Args: map[string]string{"mode": "failures", "procs": "4"}, Race: true, Procs: 4})
			bs = append(bs, Batch{Name: "tcp-p4", Args: map[string]string{"procs": "4", "mode": "tcp"}, Race: true, Procs: 4, Weight: 2})
			bs = append(bs, Batch{Name: "sup-p4", Args: map[string]string{"procs": "4", "mode": "sup"}, Race: true, Procs: 4, Weight: 2})
			bs = append(bs, Batch{Name: "linger-p4", Args: map[string]string{"procs": "4", "mode": "linger"}, Race: true, Procs: 4, Weight: 2})
			for _, p := range []int{2, 16} {
				bs = append(bs, Batch{Name: fmt.Sprintf("poll-p%d", p), Args: map[string]string{"mode": "poll", "procs": fmt.Sprint(p)}, Race: p == 2, Procs: p, Weight: min(p, 4)})
			}
			if tier == "thorough" {
				for i := 0; i < 8; i++ {
					p := []int{1, 2, 4, 16}[i%4]
					bs = append(bs, Batch{Name: fmt.Sprintf("grid-x%d-p%d", i, p), Args: map[string]string{"procs": fmt.Sprint(p), "mode": "grid", "salt": fmt.Sprint(i), "reps": "5"}, Race: i < 4, Procs: p, Weight: min(p, 4)})
				}
			}
			return bs
		},
		Run: runC06,
	})
}

var lifeCauses = []string{"close", "close3", "close8", "eof", "readerr", "writeerr", "cancel"}

// c06Grid enumerates the scenario grid (deterministic).
func c06Grid() []lifeSc {
	var out []lifeSc
	var causeSets [][]string
	for _, a := range lifeCauses {
		causeSets = append(causeSets, []string{a})
	}
	for i, a := range lifeCauses {
		for _, b := range lifeCauses[i+1:] {
			causeSets = append(causeSets, []string{a, b})
		}
	}
	type traffic struct {
		in       int
		out      int
		by       string
		handler  string
		server   string
		gateLate bool
	}
	traffics := []traffic{
		{0, 0, "none", "idle", "reading", false},
		{40, 0, "none", "idle", "reading", false},
		{20, 0, "none", "gate", "reading", true},
		{0, 30, "handler", "idle", "reading", false},
		{0, 40, "users", "idle", "stalled", false},
		{10, 40, "handler", "raw", "stalled", false},
		{5, 50, "users", "idle", "burst", false},
		{150, 0, "none", "gate", "reading", true}, // several buffers' worth of short inbound lines behind a handler
	}
	cfgs := []lifeSc{
		{},
		{Tracking: true, Welcome: "same"},
		{PingMs: 20},
		{CtxAware: true, UseCtx: true},
		{UseCtx: true, Tracking: true, Welcome: "diff", PingMs: 20},
	}
	k := 0
	for _, cs := range causeSets {
		for ti, tr := range traffics {
			cfg := cfgs[k%len(cfgs)]
			k++
			usesCancel := false
			for _, c := range cs {
				if c == "cancel" {
					usesCancel = true
				}
			}
			if usesCancel {
				cfg.UseCtx = true
			}
			sc := cfg
			sc.Cycles = 1
			sc.Causes = cs
			sc.Inbound, sc.InSegs = tr.in, []string{"one", "many"}[ti%2]
			if tr.in >= 100 {
				sc.InSegs = "one" // all of it inside the client's read buffer when the cause fires
			}
			sc.Outbound, sc.OutBy, sc.Users = tr.out, tr.by, 1+ti%4
			sc.Handler, sc.Server, sc.GateLate = tr.handler, tr.server, tr.gateLate
			sc.Reconnect = "none"
			sc.ConnectTo = k%5 == 2
			if ti%3 == 0 {
				sc.Second = []string{"idle", "busy"}[k%2]
			}
			out = append(out, sc)
		}
	}
	// multi-cycle scenarios: the counts must hold per connection
	for i, cs := range causeSets {
		multiClose := false
		hasClose := false
		for _, c := range cs {
			if c == "close3" || c == "close8" {
				multiClose = true
			}
			if c == "close" {
				hasClose = true
			}
		}
		if multiClose {
			continue
		}
		sc := cfgs[i%len(cfgs)]
		for _, c := range cs {
			if c == "cancel" {
				sc.UseCtx = true
			}
		}
		sc.Cycles = 3
		sc.Causes = cs
		sc.Reconnect = []string{"other", "handler"}[i%2]
		if sc.Reconnect == "handler" && hasClose && len(cs) > 1 {
			sc.Reconnect = "other"
		}
		sc.Handler, sc.Server, sc.OutBy, sc.InSegs = "idle", "reading", "none", "one"
		sc.Inbound = []int{0, 10, 35}[i%3]
		out = append(out, sc)
	}
	return out
}

func runC06(c *Ctx) {
	procs, salt := c.Arg("procs", "?"), c.Arg("salt", "")
	logger := rig.NewCapLogger(nil)
	logger.Discard = func(r *rig.LogRecord) bool { return true }
	lifeLogger = logger
	switch c.Arg("mode", "") {
	case "failures":
		runC06Failures(c)
		return
	case "poll":
		runC06Poll(c)
		return
	case "tcp":
		runC07TCP(c, "C06")
		return
	case "sup":
		runSupervised(c, "C06")
		return
	case "linger":
		runLingerRounds(c, "C06")
		return
	}
	grid := c06Grid()
	reps := c.ArgInt("reps", c.Pick(3, 1))
	idx := 0
	for rep := 0; rep < reps; rep++ {
		for gi, sc := range grid {
			if c.Quick() && procs != "4" && gi%3 != (len(procs)+rep)%3 {
				idx++
				continue // quick tier: each GOMAXPROCS value takes a third of the grid, 4 takes all
			}
			if !c.Want("grid", idx) {
				idx++
				continue
			}
			sc.Procs = procs
			c.J.Log("CASE %s %s", Case("grid", idx), sc.String())
			o := runLife(c, sc, "C06", procs, salt, rep, gi)
			reportLife(c, "C06", "grid", idx, sc, o)
			if o.Inconclusive != "" || c.R.NumViolations() > 6 {
				return // do not let one undecided scenario (or a tree that fails everywhere) cascade through the batch
			}
			if o.Fingerprint != "" {
				c.R.Class(o.Fingerprint)
			}
			if o.Nontrivial {
				c.R.Count("scenarios_with_blocked_goroutines_at_teardown", 1)
			}
			if idx%41 == 0 {
				c.R.Sample(map[string]interface{}{"scenario": sc.String(), "fingerprint": o.Fingerprint, "events": o.Events, "connections": o.Connections})
			}
			idx++
		}
	}
	c.R.Exhaustive[fmt.Sprintf("the %d-scenario cause-pair x traffic x configuration grid (schedules within each scenario are sampled)", len(grid))] = false
}

// runC06Poll: while a connection is up and nothing has begun to end it, Connected() is true at every instant a
// REGISTER or CONNECTED handler (or anybody else) asks - also at the instants at which other goroutines are being
// refused a second Connect, which must leave the connection as it is.
func runC06Poll(c *Ctx) {
	rounds := c.Pick(12, 120)
	polls := c.Pick(40_000, 400_000)
	if c.Batch.Yield {
		// (each call passes several yield points in the perturbed copy: a tenth of the samples takes as long)
		polls /= 10
	}
	procs := c.Arg("procs", "?")
	for idx := 0; idx < rounds; idx++ {
		if !c.Want("poll", idx) {
			continue
		}
		r := rig.Rand(c.Seed, "C06poll", procs, idx)
		nRefused := 1 + r.Intn(3)
		inReg := idx%2 == 1 // poll inside REGISTER (dispatched by Connect itself) instead of CONNECTED
		c.J.Log("CASE %s refusers=%d in-register=%v", Case("poll", idx), nRefused, inReg)
		s := NewSession(SessionOpts{Tracking: r.Intn(2) == 0, Flood: true})
		var falses, total, accepted, refused int64
		stop := make(chan struct{})
		var wg sync.WaitGroup
		startRefusers := func() {
			for g := 0; g < nRefused; g++ {
				wg.Add(1)
				go func() {
					defer wg.Done()
					for {
						select {
						case <-stop:
							return
						default:
						}
						if err := s.Conn.Connect(); err == nil {
							atomic.AddInt64(&accepted, 1)
							return
						}
						atomic.AddInt64(&refused, 1)
					}
				}()
			}
		}
		pollNow := func(cc *client.Conn) {
			for k := 0; k < polls; k++ {
				if !cc.Connected() {
					atomic.AddInt64(&falses, 1)
				}
				atomic.AddInt64(&total, 1)
				if k%64 == 0 {
					rig.CallTick() // (library calls of the harness that complete are progress: the busy-loop watch must not take a long poll for a library that computes forever)
					runtime.Gosched()
				}
			}
		}
		handlerDone := make(chan struct{})
		ev := client.CONNECTED
		if inReg {
			ev = client.REGISTER
		}
		s.Conn.HandleFunc(ev, func(cc *client.Conn, l *client.Line) {
			if !inReg {
				startRefusers() // (during REGISTER the client is still inside Connect: a second Connect then is not "while connected")
			}
			pollNow(cc)
			close(handlerDone)
		})
		mc, err := s.Connect()
		if err != nil {
			c.R.Inconcl("connect: " + err.Error())
			return
		}
		mc.SendLine(":srv 001 me :Welcome")
		if inReg {
			startRefusers()
			pollNow(s.Conn) // a user goroutine asking, while others are being refused
		}
		if !waitCh(handlerDone) {
			c.R.Inconcl(fmt.Sprintf("%s: the polling handler did not finish", Case("poll", idx)))
			close(stop)
			return
		}
		close(stop)
		wg.Wait()
		c.R.Eval(1)
		c.R.Count("connected_polls", atomic.LoadInt64(&total))
		c.R.Count("refused_connects_during_polls", atomic.LoadInt64(&refused))
		if f := atomic.LoadInt64(&falses); f > 0 {
			c.R.Violate(rig.Violation{Sig: "c06|connected-false-while-up", Detail: fmt.Sprintf("Connected() returned false %d times out of %d while the connection was up, nothing had begun to end it and %d second Connects were being refused (polling inside %s / a user goroutine)", f, atomic.LoadInt64(&total), atomic.LoadInt64(&refused), ev), Case: Case("poll", idx)})
		}
		if a := atomic.LoadInt64(&accepted); a > 0 {
			c.R.Violate(rig.Violation{Sig: "c06|second-connect-accepted", Detail: fmt.Sprintf("%d Connect calls on a connected client returned nil", a), Case: Case("poll", idx)})
		}
		if !s.WireMarker(mc) {
			c.R.Violate(rig.Violation{Sig: "c06|connection-broken-by-refused-connect", Detail: "after the refused Connects the connection no longer answers a PING", Case: Case("poll", idx)})
		}
		c.R.Class(fmt.Sprintf("poll|in-register=%v|refusers=%d|procs=%s", inReg, nRefused, procs))
		if idx%2 == 1 {
			// the server hangs up while four application goroutines keep asking Connected() and String(): the end of
			// the stream must still lead to exactly one DISCONNECTED and Connected() == false
			var nDisc int64
			discd := make(chan struct{}, 4)
			s.Conn.HandleFunc(client.DISCONNECTED, func(_ *client.Conn, _ *client.Line) {
				atomic.AddInt64(&nDisc, 1)
				discd <- struct{}{}
			})
			stop2 := make(chan struct{})
			var pwg sync.WaitGroup
			for g := 0; g < 4; g++ {
				pwg.Add(1)
				go func(g int) {
					defer pwg.Done()
					for k := 0; ; k++ {
						select {
						case <-stop2:
							return
						default:
						}
						if k%64 == 0 {
							rig.CallTick()
						}
						if g == 3 && k%64 == 0 {
							_ = s.Conn.String()
						} else {
							s.Conn.Connected()
						}
					}
				}(g)
			}
			time.Sleep(200 * time.Microsecond)
			mc.SendEOF()
			got := waitUntilShort(func() bool { return atomic.LoadInt64(&nDisc) > 0 }, 3*time.Second)
			close(stop2)
			pwg.Wait()
			if !got && !waitCh(chanOf2(discd)) {
				ds := rig.ProveDead(WaitShort)
				if ds.Dead {
					c.R.Violate(rig.Violation{Sig: "c06|disconnected-never|" + ds.Signature, Detail: "the server closed the stream while application goroutines were polling Connected(): no DISCONNECTED was ever delivered, Connected() = " + fmt.Sprint(s.Conn.Connected()) + " (dead state " + ds.Signature + ")", Case: Case("poll", idx), Witness: ds.Dump})
				} else {
					c.R.Inconcl(fmt.Sprintf("%s: no DISCONNECTED after EOF under polling (%s)", Case("poll", idx), ds.Reason))
				}
				go s.Conn.Close()
				s.Release()
				if c.R.NumViolations() > 6 {
					return
				}
				continue
			}
			if s.Conn.Connected() {
				c.R.Violate(rig.Violation{Sig: "c06|connected-true-after-disconnected", Detail: "Connected() is true after the DISCONNECTED that followed the server's EOF", Case: Case("poll", idx)})
			}
			c.R.Count("eof_under_polling", 1)
			rig.WaitNoLib(WaitShort, 400)
			if n := atomic.LoadInt64(&nDisc); n != 1 {
				c.R.Violate(rig.Violation{Sig: "c06|disconnected-count", Detail: fmt.Sprintf("%d DISCONNECTED events for one connection ended by EOF under polling", n), Case: Case("poll", idx)})
			}
		} else {
			CloseWatched(s.Conn)
		}
		s.Release()
		if c.R.NumViolations() > 6 {
			return
		}
	}
}

// c06ConcurrentConnects: several goroutines call Connect on the same unconnected client at the same moment (a reconnect
// timer and a DISCONNECTED handler, say). One of them establishes the connection; for the others the client is
// connected (or becoming so) and they are refused: one dial, one REGISTER, one working connection, one DISCONNECTED.
func c06ConcurrentConnects(c *Ctx, idx int, r interface{ Intn(int) int }) {
	lg := rig.NewLog()
	s := NewSession(SessionOpts{Tracking: r.Intn(2) == 0, CtxAware: r.Intn(2) == 0, Flood: true, Log: lg})
	defer s.Release()
	var regs, discs int64
	s.Conn.HandleFunc(client.REGISTER, func(_ *client.Conn, l *client.Line) { atomic.AddInt64(&regs, 1) })
	s.Conn.HandleFunc(client.DISCONNECTED, func(_ *client.Conn, l *client.Line) { atomic.AddInt64(&discs, 1) })
	// a dial that takes a moment widens the window in which the callers overlap
	tracked := s.Conn.StateTracker() != nil
	s.EP.Prepare(func(mc *rig.MemConn) {
		for k := 0; k < r.Intn(50); k++ {
			runtime.Gosched()
		}
		if tracked {
			// this server talks first: by the time the refused callers return, the one connection there is has been
			// welcomed and has joined a channel
			mc.SendLine(":srv 001 me :Welcome")
			mc.SendLine(":me!ident@host JOIN #cc")
			mc.SendLine(":srv 353 me = #cc :me @op +voiced")
			mc.SendLine(":srv 366 me #cc :End of NAMES")
		}
	})
	n := 2 + r.Intn(4)
	var okN, errN int64
	start := make(chan struct{})
	var wg sync.WaitGroup
	for g := 0; g < n; g++ {
		wg.Add(1)
		go func() {
			defer wg.Done()
			<-start
			if err := s.Conn.Connect(); err == nil {
				atomic.AddInt64(&okN, 1)
			} else {
				atomic.AddInt64(&errN, 1)
			}
		}()
	}
	close(start)
	done := make(chan struct{})
	go func() { wg.Wait(); close(done) }()
	if !waitCh(done) {
		ds := rig.ProveDead(WaitShort)
		if ds.Dead {
			c.R.Violate(rig.Violation{Sig: "c06|concurrent-connects-stuck|" + ds.Signature, Detail: fmt.Sprintf("%d simultaneous Connect calls never all returned: %s", n, ds.Signature), Case: Case("fail", idx)})
		} else {
			c.R.Inconcl(fmt.Sprintf("%s: simultaneous Connect calls did not return (%s)", Case("fail", idx), ds.Reason))
		}
		return
	}
	c.R.Eval(1)
	viol := func(kind, detail string) {
		c.R.Violate(rig.Violation{Sig: "c06|concurrent-connects-" + kind, Detail: fmt.Sprintf("%d simultaneous Connect calls on an unconnected client: %s", n, detail), Case: Case("fail", idx)})
	}
	dials := len(s.EP.Dials())
	if okN != 1 || dials != 1 {
		viol("accepted", fmt.Sprintf("%d returned nil, %d were refused, the server was dialled %d times (want exactly one connection)", okN, errN, dials))
	}
	if rg := atomic.LoadInt64(&regs); rg != okN {
		viol("register-count", fmt.Sprintf("%d Connect calls succeeded, REGISTER fired %d times", okN, rg))
	}
	if okN >= 1 {
		mc := s.EP.Last()
		if dials == 1 && (!AwaitRegistration(mc) || !s.WireMarker(mc)) {
			viol("unusable", "the connection that was established does not answer a PING")
		} else if dials == 1 && tracked && s.FgMarker(mc) {
			// the refused calls have all returned: what the one session has learnt is still there
			ch := s.Conn.StateTracker().GetChannel("#cc")
			if ch == nil || ch.Nicks["me"] == nil || ch.Nicks["op"] == nil {
				viol("tracker-damaged", fmt.Sprintf("after the refused calls returned, the tracker of the connection that was established no longer holds the channel it joined (GetChannel(\"#cc\") = %v)", ch))
			}
			c.R.Count("concurrent_connects_with_tracker_traffic", 1)
		}
		CloseWatched(s.Conn)
		rig.WaitNoLib(WaitShort, 400)
		if dc := atomic.LoadInt64(&discs); dc != int64(dials) {
			viol("disconnected-count", fmt.Sprintf("%d connections were established and closed, DISCONNECTED fired %d times", dials, dc))
		}
	}
	c.R.Class(fmt.Sprintf("failure|concurrent-connects|n=%d", n))
}

// c06CancelMidHandshake: the connect context ends while the TLS handshake (which does not look at it) is still under
// way; the server then completes the handshake. Whatever Connect returns, the lifecycle events agree with it: a Connect
// that returns nil has dispatched REGISTER once and the connection (ended by the cancellation) gets its one
// DISCONNECTED; a Connect that returns an error fires no event at all.
func c06CancelMidHandshake(c *Ctx, idx int, r interface{ Intn(int) int }) {
	_, pool, terr := rig.TestTLS()
	if terr != nil {
		c.R.Inconcl("test certificate: " + terr.Error())
		return
	}
	lg := rig.NewLog()
	s := NewSession(SessionOpts{Tracking: r.Intn(2) == 0, CtxAware: r.Intn(2) == 0, Flood: true, Log: lg, Mutate: func(cfg *client.Config) {
		cfg.SSL = true
		cfg.SSLConfig = &tls.Config{RootCAs: pool, ServerName: "irc.test"}
	}})
	defer s.Release()
	var regs, discs int64
	s.Conn.HandleFunc(client.REGISTER, func(_ *client.Conn, l *client.Line) { atomic.AddInt64(&regs, 1) })
	s.Conn.HandleFunc(client.DISCONNECTED, func(_ *client.Conn, l *client.Line) { atomic.AddInt64(&discs, 1) })
	gate := make(chan struct{})
	s.EP.Prepare(func(mc *rig.MemConn) { rig.ServeTLSGated(mc, gate) })
	ctx, cancel := context.WithCancel(context.Background())
	defer cancel()
	var cerr error
	ret := make(chan struct{})
	go func() { cerr = s.Conn.ConnectContext(ctx); close(ret) }()
	// the client has dialled and sent its hello
	if !waitUntil(func() bool { mc := s.EP.Last(); return mc != nil && len(mc.Transcript()) > 0 }) {
		c.R.Inconcl(fmt.Sprintf("%s: the client never started the TLS handshake", Case("fail", idx)))
		close(gate)
		return
	}
	cancel()
	if r.Intn(2) == 0 {
		time.Sleep(time.Duration(r.Intn(1500)) * time.Microsecond)
	}
	close(gate)
	if !waitCh(ret) {
		ds := rig.ProveDead(WaitShort)
		if ds.Dead {
			c.R.Violate(rig.Violation{Sig: "c06|connect-never-returns|" + ds.Signature, Detail: "ConnectContext whose context ended during the TLS handshake never returns: " + ds.Signature, Case: Case("fail", idx)})
		} else {
			c.R.Inconcl(fmt.Sprintf("%s: ConnectContext did not return (%s)", Case("fail", idx), ds.Reason))
		}
		return
	}
	// the cancellation ends whatever was established; wait until nothing of the library is left running
	if _, clean := rig.WaitNoLib(WaitShort, 400); !clean {
		c.R.Inconcl(fmt.Sprintf("%s: library goroutines still running after the cancelled connect", Case("fail", idx)))
		return
	}
	c.R.Eval(1)
	rg, dc := atomic.LoadInt64(&regs), atomic.LoadInt64(&discs)
	want := int64(0)
	if cerr == nil {
		want = 1
	}
	if rg != want || dc != want {
		c.R.Violate(rig.Violation{Sig: "c06|events-disagree-with-connect-result", Detail: fmt.Sprintf("the connect context ended during the TLS handshake; ConnectContext returned %v, REGISTER fired %d times, DISCONNECTED %d times (want %d each)", cerr, rg, dc, want), Case: Case("fail", idx)})
	}
	if s.Conn.Connected() {
		c.R.Violate(rig.Violation{Sig: "c06|connected-after-cancelled-connect", Detail: "Connected() is true after the cancelled connection has been torn down", Case: Case("fail", idx)})
	}
	c.R.Class(fmt.Sprintf("failure|tls-cancel-mid-handshake|returned-nil=%v", cerr == nil))
}

// runC06Failures: connects that fail or are refused fire no event.
func runC06Failures(c *Ctx) {
	n := c.Pick(60, 2000)
	// more rounds of simultaneous Connect calls (cheap ones): indices n .. n+extra
	extra := c.Pick(150, 1500)
	for idx := n; idx < n+extra; idx++ {
		if !c.Want("fail", idx) {
			continue
		}
		c.J.Log("CASE %s concurrent-connects", Case("fail", idx))
		c06ConcurrentConnects(c, idx, rig.Rand(c.Seed, "C06fail", idx))
		if c.R.NumViolations() > 6 {
			return
		}
	}
	for idx := 0; idx < n; idx++ {
		if !c.Want("fail", idx) {
			continue
		}
		r := rig.Rand(c.Seed, "C06fail", idx)
		kind := []string{"noserver", "refused", "refused-then-ok", "bad-proxy", "tls-handshake-fails", "tls-then-ok", "tls-cancel-mid-handshake", "concurrent-connects"}[idx%8]
		c.J.Log("CASE %s %s", Case("fail", idx), kind)
		if kind == "concurrent-connects" {
			c06ConcurrentConnects(c, idx, r)
			continue
		}
		if kind == "tls-cancel-mid-handshake" {
			c06CancelMidHandshake(c, idx, r)
			continue
		}
		lg := rig.NewLog()
		s := NewSession(SessionOpts{Tracking: r.Intn(2) == 0, CtxAware: r.Intn(2) == 0, Flood: true, Log: lg})
		events := 0
		for _, ev := range []string{client.REGISTER, client.CONNECTED, client.DISCONNECTED} {
			s.Conn.HandleFunc(ev, func(_ *client.Conn, l *client.Line) { lg.Add(rig.Event{Kind: l.Cmd}); events++ })
		}
		viol := func(kind2, detail string) {
			c.R.Violate(rig.Violation{Sig: "c06|" + kind2, Detail: kind + ": " + detail, Case: Case("fail", idx)})
		}
		switch kind {
		case "noserver":
			s.Cfg.Server = ""
		case "refused", "refused-then-ok":
			s.EP.RefuseNext(nil)
		case "bad-proxy":
			s.Cfg.Proxy = "verifmem://no-such-endpoint"
		case "tls-handshake-fails", "tls-then-ok":
			// the dial succeeds, the peer is not a TLS server
			s.Cfg.SSL = true
			s.EP.Prepare(func(mc *rig.MemConn) {
				mc.SendBytes([]byte(":srv NOTICE * :this is not TLS\r\n"))
				mc.SendEOF()
			})
		}
		err := s.Conn.Connect()
		c.R.Eval(1)
		if err == nil {
			viol("failed-connect-returned-nil", "Connect returned nil")
		}
		if lg.Len() != 0 {
			viol("failed-connect-fired-events", fmt.Sprintf("%d lifecycle events after a failed Connect: %v", lg.Len(), lg.Events()))
		}
		if s.Conn.Connected() {
			viol("connected-after-failed-connect", "Connected() is true after a failed Connect")
		}
		if err2 := s.Conn.Close(); err2 != nil || lg.Len() != 0 {
			viol("close-unconnected", fmt.Sprintf("Close after a failed Connect returned %v, events %d", err2, lg.Len()))
		}
		if lib := rig.LibGoros(rig.Census()); len(lib) != 0 {
			if leak, ok := rig.WaitNoLib(WaitShort, 200); !ok && leak != nil {
				viol("goroutines-after-failed-connect", fmt.Sprintf("%d library goroutines exist after a failed Connect", len(leak)))
			}
		}
		if kind == "tls-then-ok" {
			s.Cfg.SSL = false
			s.EP.Prepare(nil)
		}
		if kind == "refused-then-ok" || kind == "tls-then-ok" {
			if err := s.Conn.Connect(); err != nil {
				viol("retry-failed", "Connect after a refused dial failed: "+err.Error())
			} else {
				mc := s.EP.Last()
				if !AwaitRegistration(mc) || !s.WireMarker(mc) {
					viol("retry-unusable", "connection after a refused dial does not work")
				}
				CloseWatched(s.Conn)
				evs := lg.Events()
				var ks []string
				for _, e := range evs {
					ks = append(ks, e.Kind)
				}
				if strings.Join(ks, ",") != "REGISTER,DISCONNECTED" {
					viol("retry-events", fmt.Sprintf("events after refused+successful connect and Close: %v", ks))
				}
			}
		}
		c.R.Class("failure|" + kind)
		s.Release()
	}
}

func chanOf2(c chan struct{}) <-chan struct{} { return c }
