package props

import (
	"errors"
	"fmt"
	"reflect"
	"runtime"
	"strconv"
	"strings"
	"sync"
	"sync/atomic"
	"time"

	"github.com/fluffle/goirc/client"

	"verif/harness/rig"
)

func init() {
	register(&Property{
		ID:    "C16",
		Yield: true,
		Rule: "sessions of 100..1000 numbered events with 2..5 foreground and 1..4 background well-behaved counting handlers plus victims that panic at PRNG positions (user foreground, user background, and built-in " +
			"handlers made to panic with short lines such as bare PING, '433 x', 'CAP x', 'PRIVMSG'-less CTCP) with values {string, error, custom struct, runtime error, panic(nil)}, under the default recovery (LogPanic) " +
			"and a custom one, with 0..8 background handlers that park forever on every event. Judged at markers: the recovery function ran exactly once per thrown panic with that value and an equal line " +
			"(default: an error record reached the logger), every well-behaved handler's count equals the number of events sent, later markers are reached (dead-state proof otherwise), the process is alive. " +
			"Hostile mode: 150..300 probes per session shaped after what the built-in and state-tracking handlers expect (CAP, 353, 352, MODE, 324/332/311/671, membership verbs, registration numerics, CTCP) with hostile tokens, user handlers that query capabilities and the tracker on those verbs, tracking on/off; " +
			"whenever the recovery function reports a built-in handler's panic, every later numbered event must still reach the user handlers (dead-state proof otherwise). " +
			"Teardown-panic rounds: the victim panics after the link dropped / Close was called while it was running; DISCONNECTED, the recovery function and the next connection's events are still owed. Every other custom recovery function is installed through Config() after Connect. A parked background handler also sits on a verb without foreground handlers; in hostile mode CONNECTED is owed for every dispatched 001. A foreground handler removes one of the parked background handlers half-way through; in virtual time (TestC16NoDelay) the last of a burst of events next to 1..4 parked background handlers reaches its foreground handler after 0 s. The custom recovery function takes its time over the panic of a foreground victim (sleep or yields): no foreground handler of a later event may start before it has returned. distinct_nontrivial = distinct (victim kind, panic value kind, recovery kind, parked>0, GOMAXPROCS) cells in which a panic was actually thrown and recovered.",
		Assumptions: []string{"for panic(nil) the recovered value depends on GODEBUG panicnil; only continued delivery is judged for it", "parked background handlers are released at the end of each session"},
		Plan: func(tier string, seed int64) []Batch {
			var bs []Batch
			for _, p := range []int{1, 4, 16} {
				bs = append(bs, Batch{Name: fmt.Sprintf("p%d", p), Args: map[string]string{"procs": fmt.Sprint(p)}, Race: true, Procs: p, Weight: min(p, 4)})
			}
			bs = append(bs, Batch{Name: "nodelay-virtual", Kind: "synctest", Race: true, Args: map[string]string{"test": "TestC16NoDelay"}})
			bs = append(bs, Batch{Name: "teardown-panic", Args: map[string]string{"mode": "tdpanic", "procs": "4"}, Race: true, Procs: 4, Weight: 2})
			for _, t := range []string{"0", "1"} {
				bs = append(bs, Batch{Name: "hostile-t" + t, Args: map[string]string{"mode": "hostile", "tracking": t, "procs": "4"}, Race: true, Procs: 4, Weight: 2})
			}
			if tier == "thorough" {
				for i := 0; i < 6; i++ {
					bs = append(bs, Batch{Name: fmt.Sprintf("x%d", i), Args: map[string]string{"procs": "8", "salt": fmt.Sprint(i), "heavy": "1"}, Race: i < 2, Procs: 8, Weight: 3})
				}
				for i := 0; i < 4; i++ {
					bs = append(bs, Batch{Name: fmt.Sprintf("hostile-x%d", i), Args: map[string]string{"mode": "hostile", "tracking": fmt.Sprint(i % 2), "procs": "8", "salt": fmt.Sprint(i), "heavy": "1"}, Race: false, Procs: 8, Weight: 2})
				}
			}
			return bs
		},
		Run: runC16,
	})
}

type c16Custom struct {
	A int
	B string
}

// values whose own formatting methods panic (a nil receiver dereferenced): fmt copes with them, a direct call does not
type c16BadErr struct{ cause *c16Custom }

func (e *c16BadErr) Error() string { return "bad error: " + e.cause.B }

type c16BadStr struct{ p *c16Custom }

func (s c16BadStr) String() string { return "bad stringer: " + s.p.B }

type c16Rec struct {
	val  interface{}
	line *client.Line
}

// runC16Hostile: built-in (and state tracking) handlers made to panic by hostile input rather than by short lines. Which
// probes make a built-in handler panic is not known beforehand - the recovery function tells. Judged: once a built-in
// handler has panicked in a session, every later event still reaches every well-behaved user handler (a panic that
// leaves something of the library locked shows up as a later event that is never delivered).
func runC16Hostile(c *Ctx) {
	sessions := c.Pick(40, 300)
	if c.Arg("heavy", "") == "1" {
		sessions = 1500
	}
	tracking := c.Arg("tracking", "0") == "1"
	salt := c.Arg("salt", "")
	logger := rig.NewCapLogger(nil)
	logger.Discard = func(r *rig.LogRecord) bool { return true }
	for idx := 0; idx < sessions; idx++ {
		if !c.Want("hostile", idx) {
			continue
		}
		r := rig.Rand(c.Seed, "C16hostile", tracking, salt, idx)
		nProbes := 150 + r.Intn(150)
		c.J.Log("CASE %s tracking=%v probes=%d", Case("hostile", idx), tracking, nProbes)
		var mu sync.Mutex
		var panicked []string // raw form of the lines whose handler panicked
		s := NewSession(SessionOpts{Flood: true, Tracking: tracking, Mutate: func(cfg *client.Config) {
			cfg.Recover = func(_ *client.Conn, l *client.Line) {
				if v := recover(); v != nil {
					mu.Lock()
					panicked = append(panicked, l.Raw)
					mu.Unlock()
				}
			}
		}})
		var fg, bg int64
		// the welcome's handler dispatches CONNECTED: that event is owed for every 001 line, also for one whose
		// built-in handler panics on it
		var n001, nConnected int64
		s.Conn.HandleFunc("001", func(_ *client.Conn, l *client.Line) { atomic.AddInt64(&n001, 1) })
		s.Conn.HandleFunc(client.CONNECTED, func(_ *client.Conn, l *client.Line) { atomic.AddInt64(&nConnected, 1) })
		s.Conn.HandleFunc("EVT", func(_ *client.Conn, l *client.Line) { atomic.AddInt64(&fg, 1) })
		s.Conn.HandleBG("EVT", client.HandlerFunc(func(_ *client.Conn, l *client.Line) { atomic.AddInt64(&bg, 1) }))
		// user handlers that query the client the way applications do, on the verbs the probes use
		for _, v := range []string{"CAP", "353", "352", "MODE", "JOIN", "PART", "KICK", "QUIT", "NICK", "PRIVMSG", "NOTICE"} {
			s.Conn.HandleFunc(v, func(cc *client.Conn, l *client.Line) {
				cc.SupportsCapability("sasl")
				cc.HasCapability("multi-prefix")
				if st := cc.StateTracker(); st != nil {
					st.IsOn("#c", l.Nick)
					if len(l.Args) > 0 {
						st.GetNick(l.Args[len(l.Args)-1])
						st.GetChannel(l.Args[0])
					}
				}
			})
		}
		mc, err := s.Connect()
		if err != nil {
			c.R.Inconcl("connect: " + err.Error())
			return
		}
		mc.SendLine(":srv 001 me :Welcome me!ident@host")
		if tracking {
			mc.SendLine(":me!ident@host JOIN #c")
			mc.SendLine(":srv 353 me = #c :@me +ghost other")
		}
		ok := true
		sent := int64(0)
		for n := 0; n < nProbes && ok; n++ {
			p := c02BuiltinProbe(r)
			if strings.Contains(p.raw, "ERROR") {
				continue
			}
			mc.SendLine(p.raw)
			mc.SendLine(fmt.Sprintf(":srv EVT %d", n))
			sent++
			if n%10 == 9 || n == nProbes-1 {
				if tracking {
					// get back onto the channel in case a probe removed the client
					mc.SendLine(":" + "me" + "!ident@h JOIN #c")
				}
				reached := s.FgMarker(mc) && waitUntil(func() bool { return atomic.LoadInt64(&bg) >= sent })
				mu.Lock()
				np := len(panicked)
				var lastP string
				if np > 0 {
					lastP = panicked[np-1]
				}
				mu.Unlock()
				if !reached {
					ds := rig.ProveDead(WaitShort)
					switch {
					case ds.Dead && np > 0:
						c.R.Violate(rig.Violation{Sig: "c16|delivery-stopped-after-builtin-panic|" + ds.Signature,
							Detail:  fmt.Sprintf("after %d recovered panics of built-in handlers (last for %q) later events are never delivered (tracking=%v): dead state %s", np, lastP, tracking, ds.Signature),
							Case:    Case("hostile", idx),
							Witness: map[string]interface{}{"panicked_lines": panicked, "dump": ds.Dump}})
					case ds.Dead:
						c.R.Note(fmt.Sprintf("%s: delivery stopped without any recovered panic (input handling, property C02): %s", Case("hostile", idx), ds.Signature))
					default:
						c.R.Inconcl(fmt.Sprintf("%s: marker not reached (%s)", Case("hostile", idx), ds.Reason))
					}
					ok = false
					break
				}
				if a, b := atomic.LoadInt64(&n001), atomic.LoadInt64(&nConnected); a != b {
					c.R.Violate(rig.Violation{Sig: "c16|connected-lost-after-builtin-panic", Detail: fmt.Sprintf("%d welcome (001) lines were dispatched, CONNECTED was delivered %d times (%d built-in panics so far, last for %q, tracking=%v)", a, b, np, lastP, tracking), Case: Case("hostile", idx)})
					ok = false
				}
				if f := atomic.LoadInt64(&fg); f != sent {
					c.R.Violate(rig.Violation{Sig: "c16|events-lost-around-builtin-panic", Detail: fmt.Sprintf("%d events sent, the foreground handler ran %d times (%d built-in panics so far, tracking=%v)", sent, f, np, tracking), Case: Case("hostile", idx)})
					ok = false
				}
			}
		}
		mu.Lock()
		np := len(panicked)
		if np > 0 && c.R.WantSample() {
			c.R.Sample(map[string]interface{}{"hostile_session": idx, "tracking": tracking, "built-in panics recovered": np, "first": panicked[0]})
		}
		mu.Unlock()
		if ok {
			c.R.Eval(1)
			c.R.Count("hostile_probes", sent)
			c.R.Count("builtin_panics_recovered_hostile", int64(np))
			if np > 0 {
				c.R.Class(fmt.Sprintf("hostile-builtin|runtime|custom|tracking=%v", tracking))
			}
		}
		go s.Conn.Close()
		s.Release()
		if !ok && c.R.NumViolations() > 5 {
			return
		}
		if !ok && len(c.R.Inconclusive) > 0 {
			return
		}
	}
}

// runC16TeardownPanic: a foreground handler panics while the connection it belongs to is being torn down (the link
// dropped or Close was called while it was running). The panic goes to the recovery function like any other, and the
// events that follow - here DISCONNECTED, and everything on the next connection - are still delivered.
func runC16TeardownPanic(c *Ctx) {
	rounds := c.Pick(40, 500)
	logger := rig.NewCapLogger(nil)
	logger.Discard = func(r *rig.LogRecord) bool { return !(r.Level == "error" && strings.Contains(r.Format, "panic:")) }
	for idx := 0; idx < rounds; idx++ {
		if !c.Want("tdpanic", idx) {
			continue
		}
		r := rig.Rand(c.Seed, "C16tdpanic", idx)
		custom := idx%3 == 2
		cause := []string{"eof", "close", "readerr", "writeerr"}[r.Intn(4)]
		c.J.Log("CASE %s custom=%v cause=%s", Case("tdpanic", idx), custom, cause)
		logger.Reset()
		var recovered int64
		s := NewSession(SessionOpts{Flood: true, Tracking: r.Intn(2) == 0, Mutate: func(cfg *client.Config) {
			if custom {
				cfg.Recover = func(_ *client.Conn, l *client.Line) {
					if v := recover(); v != nil {
						atomic.AddInt64(&recovered, 1)
					}
				}
			}
		}})
		entered := make(chan struct{}, 1)
		gate := make(chan struct{})
		var after int64
		s.Conn.HandleFunc("TDP", func(_ *client.Conn, l *client.Line) {
			if len(l.Args) > 0 && l.Args[0] == "1" {
				entered <- struct{}{}
				<-gate
				panic("c16 panic during teardown")
			}
			atomic.AddInt64(&after, 1)
		})
		disc := make(chan struct{}, 4)
		s.Conn.HandleFunc(client.DISCONNECTED, func(_ *client.Conn, l *client.Line) { disc <- struct{}{} })
		mc, err := s.Connect()
		if err != nil {
			c.R.Inconcl("connect: " + err.Error())
			return
		}
		mc.SendLine(":srv TDP 1")
		if !waitCh(chanOf(entered)) {
			c.R.Inconcl(fmt.Sprintf("%s: the victim was never entered", Case("tdpanic", idx)))
			return
		}
		closeRet := make(chan struct{})
		switch cause {
		case "eof":
			mc.SendEOF()
			close(closeRet)
		case "readerr":
			mc.SendErr(nil)
			close(closeRet)
		case "writeerr":
			mc.FailWrite(1, nil)
			s.Conn.Raw("PROBE")
			close(closeRet)
		case "close":
			go func() { s.Conn.Close(); close(closeRet) }()
		}
		if r.Intn(3) == 0 {
			for k := 0; k < r.Intn(100); k++ {
				runtime.Gosched()
			}
		} else {
			time.Sleep(time.Duration(100+r.Intn(3000)) * time.Microsecond)
		}
		close(gate)
		done := make(chan struct{})
		go func() { <-disc; <-closeRet; close(done) }()
		viol := func(kind, detail, dump string) {
			w := map[string]interface{}{}
			if dump != "" {
				w["dump"] = dump
			}
			c.R.Violate(rig.Violation{Sig: "c16|teardown-panic-" + kind, Detail: fmt.Sprintf("%s (connection ended by %s while the handler was running, custom recovery: %v)", detail, cause, custom), Case: Case("tdpanic", idx), Witness: w})
		}
		if !waitCh(done) {
			ds := rig.ProveDead(WaitShort)
			if ds.Dead {
				viol("blocks-delivery|"+ds.Signature, "after a foreground handler panicked during teardown DISCONNECTED is never delivered (or Close never returns): dead state "+ds.Signature, ds.Dump)
				s.Release()
				if c.R.NumViolations() > 6 {
					return
				}
				continue
			}
			c.R.Inconcl(fmt.Sprintf("%s: DISCONNECTED not delivered (%s)", Case("tdpanic", idx), ds.Reason))
			return
		}
		c.R.Eval(1)
		got := atomic.LoadInt64(&recovered)
		if !custom {
			waitUntil(func() bool { return logger.Len() >= 1 })
			got = int64(logger.Len())
		}
		if got != 1 {
			viol("recovery-count", fmt.Sprintf("the recovery function saw %d panics, 1 was thrown", got), "")
		}
		// later events: the next connection delivers
		mc2, err := s.Connect()
		if err != nil {
			viol("reconnect", "Connect after the teardown failed: "+err.Error(), "")
		} else {
			mc2.SendLine(":srv TDP 2")
			if !s.FgMarker(mc2) || atomic.LoadInt64(&after) != 1 {
				viol("later-events-lost", fmt.Sprintf("an event sent on the next connection reached its handler %d times", atomic.LoadInt64(&after)), "")
			}
			CloseWatched(s.Conn)
		}
		c.R.Class(fmt.Sprintf("teardown|string|%s|cause=%s", map[bool]string{false: "default", true: "custom"}[custom], cause))
		s.Release()
		if c.R.NumViolations() > 6 {
			return
		}
	}
}

func runC16(c *Ctx) {
	if c.Arg("mode", "") == "hostile" {
		runC16Hostile(c)
		return
	}
	if c.Arg("mode", "") == "tdpanic" {
		runC16TeardownPanic(c)
		return
	}
	sessions := c.Pick(60, 500)
	if c.Arg("heavy", "") == "1" {
		sessions = 1300
	}
	procs, salt := c.Arg("procs", "?"), c.Arg("salt", "")
	logger := rig.NewCapLogger(nil)
	logger.Discard = func(r *rig.LogRecord) bool { return !(r.Level == "error" && strings.Contains(r.Format, "panic:")) }
	for idx := 0; idx < sessions; idx++ {
		if !c.Want("sess", idx) {
			continue
		}
		r := rig.Rand(c.Seed, "C16", procs, salt, idx)
		nEvents := 100 + r.Intn(c.Pick(300, 901))
		nFg, nBg := 2+r.Intn(4), 1+r.Intn(4)
		nParked := []int{0, 0, 1, 3, 8}[r.Intn(5)]
		custom := r.Intn(2) == 0
		c.J.Log("CASE %s events=%d fg=%d bg=%d parked=%d custom=%v", Case("sess", idx), nEvents, nFg, nBg, nParked, custom)
		logger.Reset()

		var mu sync.Mutex
		var recs []c16Rec
		// the recovery of a foreground victim is part of that invocation: while it runs (it takes its time here), no
		// foreground handler of a later event may have started
		var fgRecovering, overtaken int64 // event number + 1 whose foreground victim is being recovered; overtaking event + 1
		var isFgVictim func(n int) bool
		recf := func(_ *client.Conn, l *client.Line) {
			if v := recover(); v != nil {
				n := -1
				if l != nil && l.Cmd == "EVT" && len(l.Args) > 0 {
					n, _ = strconv.Atoi(l.Args[0])
				}
				slow := n >= 0 && isFgVictim != nil && isFgVictim(n)
				if slow {
					atomic.StoreInt64(&fgRecovering, int64(n)+1)
					if n%2 == 0 {
						time.Sleep(150 * time.Microsecond)
					} else {
						for k := 0; k < 30; k++ {
							runtime.Gosched()
						}
					}
				}
				mu.Lock()
				recs = append(recs, c16Rec{v, l})
				mu.Unlock()
				if slow {
					atomic.StoreInt64(&fgRecovering, 0)
				}
			}
		}
		// every other custom recovery function is installed through Config() only after Connect has returned
		lateRecover := custom && idx%4 >= 2
		s := NewSession(SessionOpts{Flood: true, Mutate: func(cfg *client.Config) {
			if custom && !lateRecover {
				cfg.Recover = recf
			}
		}})
		counts := make([]int64, nFg+nBg)
		for h := 0; h < nFg+nBg; h++ {
			h := h
			f := func(_ *client.Conn, l *client.Line) { atomic.AddInt64(&counts[h], 1) }
			if h < nFg {
				f = func(_ *client.Conn, l *client.Line) {
					if e := atomic.LoadInt64(&fgRecovering); e != 0 {
						if n, _ := strconv.Atoi(l.Args[0]); int64(n) > e-1 {
							atomic.CompareAndSwapInt64(&overtaken, 0, int64(n)+1)
						}
					}
					atomic.AddInt64(&counts[h], 1)
				}
			}
			if h < nFg {
				s.Conn.HandleFunc("EVT", f)
			} else {
				s.Conn.HandleBG("EVT", client.HandlerFunc(f))
			}
		}
		// victims: panic when the event number is in their set
		type throwPlan struct {
			kind  string // fg, bg, builtin
			vkind string
		}
		plan := map[int]throwPlan{}
		nPanics := 3 + r.Intn(12)
		vkinds := []string{"string", "error", "struct", "runtime", "nil", "bad-error", "bad-stringer"}
		for k := 0; k < nPanics; k++ {
			plan[r.Intn(nEvents)] = throwPlan{[]string{"fg", "bg", "builtin"}[r.Intn(3)], vkinds[r.Intn(len(vkinds))]}
		}
		errVal := errors.New("c16 error value")
		throw := func(vk string, n int) {
			switch vk {
			case "string":
				panic(fmt.Sprintf("c16 string %d", n))
			case "error":
				panic(errVal)
			case "struct":
				panic(c16Custom{n, "x"})
			case "runtime":
				var m map[string]int
				m["boom"] = n
			case "nil":
				panic(nil)
			case "bad-error":
				var e *c16BadErr
				panic(error(e))
			case "bad-stringer":
				panic(c16BadStr{})
			}
		}
		victim := func(kind string) client.HandlerFunc {
			return func(_ *client.Conn, l *client.Line) {
				n, _ := strconv.Atoi(l.Args[0])
				if p, ok := plan[n]; ok && p.kind == kind {
					throw(p.vkind, n)
				}
			}
		}
		isFgVictim = func(n int) bool { p, ok := plan[n]; return ok && p.kind == "fg" }
		s.Conn.HandleFunc("EVT", victim("fg"))
		s.Conn.HandleBG("EVT", victim("bg"))
		release := make(chan struct{})
		var parkedStarted int64
		var parkedRems []client.Remover
		for k := 0; k < nParked; k++ {
			parkedRems = append(parkedRems, s.Conn.HandleBG("EVT", client.HandlerFunc(func(_ *client.Conn, l *client.Line) {
				atomic.AddInt64(&parkedStarted, 1)
				<-release
			})))
		}
		if nParked > 1 {
			// half-way through, a foreground handler unregisters one of the handlers that are parked (its running
			// invocations are none of Remove's business)
			var once int32
			s.Conn.HandleFunc("EVT", func(_ *client.Conn, l *client.Line) {
				if n, _ := strconv.Atoi(l.Args[0]); n >= nEvents/2 && atomic.CompareAndSwapInt32(&once, 0, 1) {
					parkedRems[0].Remove()
				}
			})
		}
		if nParked > 0 {
			// one more that parks on a verb nobody handles in the foreground
			s.Conn.HandleBG("BGONLY", client.HandlerFunc(func(_ *client.Conn, l *client.Line) {
				atomic.AddInt64(&parkedStarted, 1)
				<-release
			}))
		}
		mc, err := s.Connect()
		if lateRecover {
			// (REGISTER has been dispatched by now: the function in force is the one found at each panic, not at the first event)
			s.Conn.Config().Recover = recf
		}
		if err != nil {
			c.R.Inconcl("connect: " + err.Error())
			close(release)
			return
		}
		if !AwaitRegistration(mc) {
			c.R.Inconcl("registration not seen")
			close(release)
			return
		}
		builtinProbes := []string{"PING", ":srv 433 x", ":srv CAP x", ":srv 410 x", ":srv 908 x"}
		// user handlers on the verbs whose built-in handler is made to panic: they are siblings of the victim
		var builtinUserFg, builtinUserBg int64
		for _, v := range []string{"PING", "433", "CAP", "410", "908"} {
			s.Conn.HandleFunc(v, func(_ *client.Conn, l *client.Line) {
				if n := len(l.Args); n > 0 && strings.HasPrefix(l.Args[n-1], "sync-") {
					return
				}
				atomic.AddInt64(&builtinUserFg, 1)
			})
			s.Conn.HandleBG(v, client.HandlerFunc(func(_ *client.Conn, l *client.Line) {
				if n := len(l.Args); n > 0 && strings.HasPrefix(l.Args[n-1], "sync-") {
					return
				}
				atomic.AddInt64(&builtinUserBg, 1)
			}))
		}
		thrown := map[string]int{}
		var thrownSeq []throwPlan
		sentEvents := 0
		builtinThrown := 0
		fail := func(kind, detail string) {
			c.R.Violate(rig.Violation{Sig: "c16|" + kind, Detail: fmt.Sprintf("events=%d fg=%d bg=%d parked=%d custom-recovery=%v procs=%s: %s", nEvents, nFg, nBg, nParked, custom, procs, detail), Case: Case("sess", idx)})
		}
		ok := true
		checkpoint := func(final bool) bool {
			if !s.FgMarker(mc) {
				ds := rig.ProveDead(WaitShort)
				if ds.Dead {
					fail("delivery-stopped|"+ds.Signature, "a marker sent after a misbehaving handler was never delivered; dead state: "+ds.Signature)
				} else if mc.Closed() {
					fail("connection-closed", "the client closed the connection after a handler misbehaved")
				} else {
					c.R.Inconcl(fmt.Sprintf("%s: marker not reached (%s)", Case("sess", idx), ds.Reason))
				}
				return false
			}
			// foreground counts are exact at a marker
			if n := atomic.LoadInt64(&builtinUserFg); n != int64(builtinThrown) {
				fail("builtin-sibling-fg-count", fmt.Sprintf("user foreground handlers on the verbs of %d lines whose built-in handler panicked ran %d times", builtinThrown, n))
				return false
			}
			for h := 0; h < nFg; h++ {
				if n := atomic.LoadInt64(&counts[h]); n != int64(sentEvents) {
					fail("fg-count", fmt.Sprintf("well-behaved foreground handler %d ran %d times after %d events (%d panics thrown so far)", h, n, sentEvents, len(thrownSeq)+builtinThrown))
					return false
				}
			}
			if final {
				// background handlers: wait until they have caught up (they are asynchronous)
				for h := nFg; h < nFg+nBg; h++ {
					if !waitUntil(func() bool { return atomic.LoadInt64(&counts[h]) >= int64(sentEvents) }) {
						fail("bg-count", fmt.Sprintf("well-behaved background handler %d ran %d times after %d events", h, atomic.LoadInt64(&counts[h]), sentEvents))
						return false
					}
					if n := atomic.LoadInt64(&counts[h]); n != int64(sentEvents) {
						fail("bg-count", fmt.Sprintf("well-behaved background handler %d ran %d times after %d events", h, n, sentEvents))
						return false
					}
				}
				if !waitUntil(func() bool { return atomic.LoadInt64(&builtinUserBg) >= int64(builtinThrown) }) || atomic.LoadInt64(&builtinUserBg) != int64(builtinThrown) {
					fail("builtin-sibling-bg-count", fmt.Sprintf("user background handlers on the verbs of %d lines whose built-in handler panicked ran %d times", builtinThrown, atomic.LoadInt64(&builtinUserBg)))
					return false
				}
				want := len(thrownSeq) + builtinThrown
				if e := atomic.LoadInt64(&overtaken); e != 0 {
					fail("recovery-overtaken", fmt.Sprintf("a foreground handler of event %d started while the recovery function was still dealing with the panic of a foreground handler of an earlier event", e-1))
					return false
				}
				if custom {
					if !waitUntil(func() bool { mu.Lock(); defer mu.Unlock(); return len(recs) >= want-thrown["nil"] }) {
						mu.Lock()
						n := len(recs)
						mu.Unlock()
						fail("recover-count", fmt.Sprintf("recovery function ran %d times for %d panics", n, want))
						return false
					}
					mu.Lock()
					got := append([]c16Rec(nil), recs...)
					mu.Unlock()
					nonNil := want - thrown["nil"]
					if len(got) < nonNil || len(got) > want {
						fail("recover-count", fmt.Sprintf("recovery function ran %d times for %d panics (%d of them panic(nil))", len(got), want, thrown["nil"]))
						return false
					}
					// values
					for _, g := range got {
						if g.line == nil {
							fail("recover-line", "recovery function was called without the line")
							return false
						}
						switch v := g.val.(type) {
						case string:
							if !strings.HasPrefix(v, "c16 string ") {
								fail("recover-value", fmt.Sprintf("unexpected recovered string %q", v))
								return false
							}
							n, _ := strconv.Atoi(strings.TrimPrefix(v, "c16 string "))
							if len(g.line.Args) == 0 || g.line.Args[0] != fmt.Sprint(n) || g.line.Cmd != "EVT" {
								fail("recover-line", fmt.Sprintf("panic of event %d was handed to the recovery function with line %+v", n, *g.line))
								return false
							}
						case c16Custom:
							if len(g.line.Args) == 0 || g.line.Args[0] != fmt.Sprint(v.A) {
								fail("recover-line", fmt.Sprintf("panic of event %d was handed to the recovery function with line %+v", v.A, *g.line))
								return false
							}
						case error:
							// errVal, a runtime error or PanicNilError
							if _, bad := v.(*c16BadErr); bad {
								break
							}
							if v != errVal && !strings.Contains(v.Error(), "nil map") && !strings.Contains(v.Error(), "index out of range") && !strings.Contains(reflect.TypeOf(v).String(), "PanicNilError") {
								fail("recover-value", fmt.Sprintf("unexpected recovered error %v", v))
								return false
							}
						case c16BadStr:
						default:
							fail("recover-value", fmt.Sprintf("unexpected recovered value %T", g.val))
							return false
						}
					}
				} else {
					if !waitUntil(func() bool { return logger.Len() >= want-thrown["nil"] }) {
						fail("default-recovery-silent", fmt.Sprintf("%d error records reached the logger for %d panics", logger.Len(), want))
						return false
					}
					if n := logger.Len(); n > want {
						var texts []string
						for _, rec := range logger.Records() {
							texts = append(texts, clipS(rec.Text))
						}
						fail("default-recovery-extra", fmt.Sprintf("%d panic records for %d panics: %q", n, want, texts))
						return false
					}
				}
			}
			return true
		}
		for n := 0; n < nEvents && ok; n++ {
			p, has := plan[n]
			if has && p.kind == "builtin" {
				probe := builtinProbes[r.Intn(len(builtinProbes))]
				mc.SendLine(probe)
				builtinThrown++
				thrown["builtin"]++
				has = false // the user victims ignore plan entries of kind "builtin"
			}
			if nParked > 0 && n%37 == 5 {
				mc.SendLine(fmt.Sprintf(":srv BGONLY %d", n))
			}
			mc.SendLine(fmt.Sprintf(":srv EVT %d", n))
			sentEvents++
			if has {
				thrown[p.vkind]++
				thrownSeq = append(thrownSeq, p)
			}
			if has || n%97 == 96 {
				ok = checkpoint(false)
			}
		}
		if ok {
			ok = checkpoint(true)
		}
		if ok {
			c.R.Eval(1)
			c.R.Count("events_delivered", int64(sentEvents))
			c.R.Count("panics_thrown", int64(len(thrownSeq)+builtinThrown))
			c.R.Count("parked_invocations", atomic.LoadInt64(&parkedStarted))
			rk := "default"
			if custom {
				rk = "custom"
			}
			for _, p := range thrownSeq {
				c.R.Class(fmt.Sprintf("%s|%s|%s|parked=%v|procs=%s", p.kind, p.vkind, rk, nParked > 0, procs))
			}
			if builtinThrown > 0 {
				c.R.Class(fmt.Sprintf("builtin|runtime|%s|parked=%v|procs=%s", rk, nParked > 0, procs))
			}
			if idx%4 == 0 {
				c.R.Sample(map[string]interface{}{"events": nEvents, "fg": nFg, "bg": nBg, "parked_bg_handlers": nParked, "custom_recovery": custom, "panics": thrown, "procs": procs})
			}
		}
		if ok && nParked > 0 {
			// the connection ends while background handlers are still parked: DISCONNECTED is an event like any other
			discDone := make(chan struct{}, 1)
			s.Conn.HandleFunc(client.DISCONNECTED, func(_ *client.Conn, l *client.Line) { discDone <- struct{}{} })
			go s.Conn.Close()
			if !waitCh(chanOf(discDone)) {
				ds := rig.ProveDead(WaitShort)
				if ds.Dead {
					fail("disconnected-blocked-by-parked-bg|"+ds.Signature, "with background handlers parked, DISCONNECTED was never delivered to a foreground handler: dead state "+ds.Signature)
				} else {
					c.R.Inconcl(fmt.Sprintf("%s: DISCONNECTED not delivered (%s)", Case("sess", idx), ds.Reason))
				}
			}
			close(release)
		} else {
			close(release)
			go s.Conn.Close()
		}
		// nothing of this session may still be running when the next one resets the (process-wide) logger: a
		// background victim's panic(nil) - whose record the final checkpoint does not wait for - would otherwise be
		// counted there
		rig.WaitNoLib(WaitShort, 400)
		s.Release()
		if !ok && c.R.NumViolations() > 5 {
			return
		}
	}
}
