package props

import (
	"fmt"
	"strconv"
	"strings"
	"sync"
	"sync/atomic"
	"time"

	"github.com/fluffle/goirc/client"

	"verif/harness/rig"
)

func init() {
	register(&Property{
		ID:    "C03",
		Yield: true,
		Rule: "sessions of 50..500 numbered lines over 6 harness-only verbs plus PING, PRIVMSG, NOTICE, PONG, MODE (verbs with built-in handlers or special parsing) with 1..4 foreground and 0..2 background handlers per verb; handler durations drawn from {return, Gosched storm, 50..500us sleep, wait until the receive " +
			"goroutine has logged the next line}; byte stream cut per byte / PRNG sizes / one segment / inside CRLF, lines of 4094..4098, 20000 and 510..514 bytes; a 001 welcome at a PRNG position; ended by drain+Close, abrupt Close, EOF or read error " +
			"with handlers still running; GOMAXPROCS 1,2,4,16 under the race detector. Offline oracle over the ENTER/EXIT event log: open foreground invocations always belong to one line, dispatched sequence numbers strictly increase " +
			"(equal to what was sent when the session was drained), every handler of a verb ran exactly once per dispatched line, no handler of a later line enters before all foreground handlers of earlier lines exited, CONNECTED placement " +
			"and nick, DISCONNECTED after every foreground exit. A session is non-trivial when >= 2 handlers of the same line were open at once and >= 1 line crossed a segment boundary; Plus sessions inside a testing/synctest bubble whose handlers take 1 ms .. 1 h of virtual time (a dispatch that stops waiting after some timeout must not let the next line start). Supervised-reconnect sessions: a supervisor goroutine calls Connect from the moment the link drops (EOF, read error, write error, Close) while a foreground handler of the old connection is still running; handlers of the two connections' lines never overlap, each connection keeps its order, DISCONNECTED comes after the old connection's last handler returned. EOF / read-error endings (also of drained sessions, event loop idle) are preceded by an unterminated fragment of one more line, which must never be delivered. Long lines also of 510..514 bytes (the RFC 1459 limit). Every sixth drained session delivers a temporary read error (net.Error, Temporary) in the middle of a line and then the rest of the stream: a client that gives the connection up is judged like a read error, one that carries on must deliver every line whole and in order. y- batches: the same against the schedule-perturbed copy. distinct_nontrivial = distinct " +
			"(segmentation, ending, GOMAXPROCS, handler-duration mix, long-line) cells among non-trivial sessions.",
		Assumptions: []string{"the capturing logger's '<- line' record is used only to shape handler durations, never as an oracle input"},
		Plan: func(tier string, seed int64) []Batch {
			var bs []Batch
			for _, p := range []int{1, 2, 4, 16} {
				bs = append(bs, Batch{Name: fmt.Sprintf("p%d", p), Args: map[string]string{"procs": fmt.Sprint(p)}, Race: true, Procs: p, Weight: min(p, 4)})
			}
			bs = append(bs, Batch{Name: "slow-virtual", Kind: "synctest", Race: true, Args: map[string]string{"test": "TestC03SlowHandlers"}})
			for _, p := range []int{2, 16} {
				bs = append(bs, Batch{Name: fmt.Sprintf("sup-p%d", p), Args: map[string]string{"mode": "sup", "procs": fmt.Sprint(p)}, Race: true, Procs: p, Weight: min(p, 4)})
			}
			if tier == "thorough" {
				for i := 0; i < 8; i++ {
					p := []int{1, 2, 4, 16}[i%4]
					bs = append(bs, Batch{Name: fmt.Sprintf("x%d-p%d", i, p), Args: map[string]string{"procs": fmt.Sprint(p), "salt": fmt.Sprint(i)}, Race: i < 4, Procs: p, Weight: min(p, 4)})
				}
			}
			return bs
		},
		Run: runC03,
	})
}

type c03Sent struct {
	seq  int
	verb string
	size int // bytes of the line as sent (without CRLF)
}

func runC03(c *Ctx) {
	if c.Arg("mode", "") == "sup" {
		runSupervised(c, "C03")
		return
	}
	sessions := c.Pick(60, 500)
	procs, salt := c.Arg("procs", "?"), c.Arg("salt", "")
	lg := rig.NewLog()
	logger := rig.NewCapLogger(nil)
	var recvSeen int64 // highest V-line sequence number recv has logged
	logger.Discard = func(r *rig.LogRecord) bool { return true }
	logger.OnRec = func(r *rig.LogRecord) {
		if strings.HasPrefix(r.Format, "Server changed our nick on connect") {
			// stretch the window between reading the welcome and storing its nick
			for k := 0; k < 50; k++ {
				runtimeGosched()
			}
			time.Sleep(300 * time.Microsecond)
		}
		if r.Format == "<- %s" && len(r.Args) == 1 {
			s, _ := r.Args[0].(string)
			if strings.HasPrefix(s, ":srv V") {
				f := strings.Fields(s)
				if len(f) >= 3 {
					if n, err := strconv.Atoi(f[2]); err == nil {
						for {
							old := atomic.LoadInt64(&recvSeen)
							if int64(n) <= old || atomic.CompareAndSwapInt64(&recvSeen, old, int64(n)) {
								break
							}
						}
					}
				}
			}
		}
	}
	for idx := 0; idx < sessions; idx++ {
		if !c.Want("sess", idx) {
			continue
		}
		r := rig.Rand(c.Seed, "C03", procs, salt, idx)
		nLines := 50 + r.Intn(c.Pick(200, 451))
		segMode := []string{"perbyte", "prng", "one", "crlf"}[r.Intn(4)]
		if segMode == "perbyte" && nLines > 120 {
			nLines = 120
		}
		ending := []string{"drain", "drain", "close", "eof", "readerr"}[r.Intn(5)]
		durMix := r.Intn(4) // 0 = all return, 1 = gosched, 2 = sleeps, 3 = wait-for-next-recv mix
		longLines := r.Intn(3) == 0
		welcomeAt := -1
		if r.Intn(3) != 0 {
			welcomeAt = r.Intn(nLines)
		}
		c.J.Log("CASE %s lines=%d seg=%s end=%s dur=%d long=%v welcome=%d", Case("sess", idx), nLines, segMode, ending, durMix, longLines, welcomeAt)
		lg.Reset()
		atomic.StoreInt64(&recvSeen, -1)

		floodOn := idx%3 == 1
		// sessions whose handlers outlast Config.Timeout at teardown (nothing in the teardown may give up waiting for them)
		slowTeardown := idx%5 == 2
		if slowTeardown {
			if ending == "drain" {
				ending = "eof"
			}
			if nLines > 80 {
				nLines = 80
			}
		}
		s := NewSession(SessionOpts{Flood: !floodOn, Log: lg, Mutate: func(cfg *client.Config) {
			if slowTeardown {
				cfg.Timeout = 15 * time.Millisecond
			}
		}})
		// six harness-only verbs plus verbs with built-in handlers or special parsing: a loop that treats
		// some verb specially (fast paths, priorities) must obey the same ordering
		verbNames := []string{"V0", "V1", "V2", "V3", "V4", "V5", "PRIVMSG", "NOTICE", "PONG", "MODE", "ERROR", "PING"}
		// a third of the sessions run with the library's default flood protection; they avoid PING lines
		// (the PONGs would be rate limited and stretch the session to minutes of real time)
		if floodOn {
			verbNames = verbNames[:len(verbNames)-1]
		}
		nV := len(verbNames)
		nFg := make([]int, nV)
		nBg := make([]int, nV)
		hid := 0
		dur := func(rr interface{ Intn(int) int }, seq int) {
			if slowTeardown && rr.Intn(12) == 0 {
				time.Sleep(60 * time.Millisecond)
				return
			}
			switch durMix {
			case 0:
			case 1:
				for k := rr.Intn(20); k > 0; k-- {
					runtimeGosched()
				}
			case 2:
				if rr.Intn(3) == 0 {
					time.Sleep(time.Duration(50+rr.Intn(450)) * time.Microsecond)
				}
			case 3:
				switch rr.Intn(4) {
				case 0:
					// give a broken loop every chance: wait until recv has the next line
					dl := time.Now().Add(3 * time.Millisecond)
					for atomic.LoadInt64(&recvSeen) <= int64(seq) && time.Now().Before(dl) {
						runtimeGosched()
					}
					for k := 0; k < 10; k++ {
						runtimeGosched()
					}
				case 1:
					time.Sleep(time.Duration(50+rr.Intn(300)) * time.Microsecond)
				}
			}
		}
		mk := func(kind string, h int) client.HandlerFunc {
			return func(_ *client.Conn, l *client.Line) {
				seq, err := strconv.Atoi(strings.TrimLeft(l.Args[0], "#"))
				if err != nil {
					return // not a numbered session line (e.g. the harness's own wire marker)
				}
				lg.Add(rig.Event{Kind: kind + "E", Seq: seq, H: h, S: fmt.Sprint(len(l.Raw))})
				dur(rig.Rand(c.Seed, "C03d", idx, h, seq), seq)
				lg.Add(rig.Event{Kind: kind + "X", Seq: seq, H: h})
			}
		}
		for v := 0; v < nV; v++ {
			nFg[v] = 1 + r.Intn(4)
			nBg[v] = r.Intn(3)
			for k := 0; k < nFg[v]; k++ {
				hid++
				s.Conn.HandleFunc(verbNames[v], mk("F", hid))
			}
			for k := 0; k < nBg[v]; k++ {
				hid++
				s.Conn.HandleBG(strings.ToLower(verbNames[v]), mk("B", hid))
			}
		}
		var connNick atomic.Value
		s.Conn.HandleFunc(client.CONNECTED, func(cc *client.Conn, l *client.Line) {
			lg.Add(rig.Event{Kind: "CE"})
			connNick.Store(cc.Me().Nick)
			dur(rig.Rand(c.Seed, "C03c", idx), -1)
			lg.Add(rig.Event{Kind: "CX"})
		})
		discDone := make(chan struct{})
		var discOnce sync.Once
		s.Conn.HandleFunc(client.DISCONNECTED, func(cc *client.Conn, l *client.Line) {
			lg.Add(rig.Event{Kind: "DE"})
			lg.Add(rig.Event{Kind: "DX"})
			discOnce.Do(func() { close(discDone) })
		})

		mc, err := s.Connect()
		if err != nil {
			c.R.Inconcl("connect: " + err.Error())
			return
		}
		// build the stream
		var stream []byte
		var sent []c03Sent
		var lineEnds []int
		welcomeNick := "wn" + fmt.Sprint(idx)
		for i := 0; i < nLines; i++ {
			if i == welcomeAt {
				stream = append(stream, fmt.Sprintf(":srv 001 %s :Welcome %s!u@h\r\n", welcomeNick, welcomeNick)...)
				lineEnds = append(lineEnds, len(stream))
			}
			v := r.Intn(nV)
			if r.Intn(3) != 0 {
				v = r.Intn(6)
			}
			verb := verbNames[v]
			if r.Intn(4) == 0 {
				verb = strings.ToLower(verb)
			}
			l := fmt.Sprintf(":srv %s %d", verb, i)
			switch verbNames[v] {
			case "PRIVMSG", "NOTICE":
				l = fmt.Sprintf(":n!u@h %s #%d :text", verb, i)
			case "MODE":
				l = fmt.Sprintf(":srv %s #%d +n", verb, i)
			case "PING", "PONG", "ERROR":
				l = fmt.Sprintf("%s %d", verb, i)
			}
			if longLines && r.Intn(12) == 0 {
				// around the read buffer's 4096 bytes and around the 512 bytes (CR-LF included) of RFC 1459
				total := []int{4094, 4095, 4096, 4097, 4098, 20000, 510, 511, 512, 513, 514}[r.Intn(11)]
				pad := total - len(l) - 2 - 2 // " :" and CRLF
				if pad > 0 {
					l += " :" + strings.Repeat("p", pad)
				}
			}
			stream = append(stream, l+"\r\n"...)
			lineEnds = append(lineEnds, len(stream))
			sent = append(sent, c03Sent{i, strings.ToUpper(verb), len(l)})
		}
		var cuts []int
		switch segMode {
		case "perbyte":
			for k := 1; k < len(stream); k++ {
				cuts = append(cuts, k)
			}
		case "prng":
			for k := 1 + r.Intn(50); k < len(stream); k += 1 + r.Intn([]int{8, 100, 5000}[r.Intn(3)]) {
				cuts = append(cuts, k)
			}
		case "crlf":
			for _, e := range lineEnds {
				if r.Intn(2) == 0 && e-1 > 0 {
					cuts = append(cuts, e-1) // between CR and LF
				} else if e < len(stream) {
					cuts = append(cuts, e)
				}
			}
		}
		// does a line cross a segment boundary?
		crossing := false
		{
			ci := 0
			start := 0
			for _, e := range lineEnds {
				for ci < len(cuts) && cuts[ci] <= start {
					ci++
				}
				if ci < len(cuts) && cuts[ci] < e {
					crossing = true
					break
				}
				start = e
			}
		}
		// every sixth drained session: one Read of the client fails with a temporary error in the middle of a line
		// (the stream then continues). A client may give the connection up over that - an ending like a read error -
		// or carry on; one that carries on has lost nothing
		tempErr := ending == "drain" && idx%6 == 1 && len(lineEnds) > 4
		if tempErr {
			mid := lineEnds[len(lineEnds)/2] + 1 + r.Intn(8)
			if mid >= len(stream)-2 {
				mid = lineEnds[len(lineEnds)/2-1] + 2
			}
			var c1, c2 []int
			for _, k := range cuts {
				if k < mid {
					c1 = append(c1, k)
				} else if k > mid {
					c2 = append(c2, k-mid)
				}
			}
			mc.SendSegmented(stream[:mid], c1)
			mc.SendTempErr()
			mc.SendSegmented(stream[mid:], c2)
			crossing = true
			c.R.Count("sessions_with_a_temporary_read_error_inside_a_line", 1)
		} else {
			mc.SendSegmented(stream, cuts)
		}

		endedBy := ending
		if tempErr {
			if s.FgMarker(mc) {
				c.R.Count("temporary_read_error_survived", 1)
				go s.Conn.Close()
			} else if mc.Closed() {
				endedBy = "readerr"
				c.R.Count("temporary_read_error_ended_the_connection", 1)
			} else {
				c.R.Inconcl(fmt.Sprintf("%s: neither the marker nor the end of the connection after a temporary read error", Case("sess", idx)))
				return
			}
		}
		switch map[bool]string{true: "-", false: ending}[tempErr] {
		case "drain":
			if !s.FgMarker(mc) {
				ds := rig.ProveDead(WaitShort)
				if ds.Dead {
					c.R.Violate(rig.Violation{Sig: "c03|delivery-stopped|" + ds.Signature, Detail: "marker after the session never reached its handler; dead state: " + ds.Signature, Case: Case("sess", idx), Witness: ds.Dump})
				} else {
					c.R.Inconcl(fmt.Sprintf("%s: drain marker not reached (%s)", Case("sess", idx), ds.Reason))
				}
				return
			}
			if idx%3 == 0 {
				// the drained session is ended by the link dying in the middle of one more line, with the event loop idle
				mc.SendBytes([]byte(fmt.Sprintf(":srv V0 %d a line that never ended", len(sent))))
				mc.SendEOF()
			} else {
				go s.Conn.Close()
			}
		case "close":
			// abrupt: close once some line's handler has entered
			target := r.Intn(nLines)
			dl := time.Now().Add(2 * time.Second)
			for time.Now().Before(dl) {
				if lg.Len() > target {
					break
				}
				runtimeGosched()
			}
			go s.Conn.Close()
		case "eof":
			// the link dies in the middle of a line: what arrived of it is no line and must not be delivered
			mc.SendBytes([]byte(fmt.Sprintf(":srv V0 %d a line that never ended", len(sent))))
			mc.SendEOF()
		case "readerr":
			mc.SendBytes([]byte(fmt.Sprintf(":srv V0 %d a line that never ended", len(sent))))
			mc.SendErr(nil)
		}
		if !waitCh(discDone) {
			ds := rig.ProveDead(WaitShort)
			if ds.Dead {
				// a stuck teardown is C07's subject; here it only makes the session undecidable
				c.R.Inconcl(fmt.Sprintf("%s: DISCONNECTED never delivered (dead state %s) — judged by C07", Case("sess", idx), ds.Signature))
			} else {
				c.R.Inconcl(fmt.Sprintf("%s: DISCONNECTED not delivered (%s)", Case("sess", idx), ds.Reason))
			}
			return
		}
		// let background handlers finish (they are not waited for by Close)
		rig.WaitNoLib(WaitShort, 400)
		ev := lg.Events()
		c.R.Eval(1)
		c.R.Count("events_logged", int64(len(ev)))

		viol := func(kind, detail string) {
			c.R.Violate(rig.Violation{
				Sig:    "c03|" + kind,
				Detail: fmt.Sprintf("lines=%d seg=%s end=%s dur=%d procs=%s: %s", nLines, segMode, endedBy, durMix, procs, detail),
				Case:   Case("sess", idx),
			})
		}
		open := map[[2]int]bool{} // (seq,h) of open fg invocations
		openSeq := -1
		lastFgExit := map[int]int64{} // seq -> tick of last fg exit
		var dispatched []int
		fgCount := map[[2]int]int{}
		bgCount := map[[2]int]int{}
		sameLineOverlap := false
		maxExitBelow := func(seq int) int64 { // last fg exit tick among lines < seq
			var mx int64
			for s2, t := range lastFgExit {
				if s2 < seq && t > mx {
					mx = t
				}
			}
			return mx
		}
		var ceTick, cxTick, deTick int64
		nCE, nDE := 0, 0
		bad := false
		openFgTotal := 0
		for _, e := range ev {
			if bad {
				break
			}
			switch e.Kind {
			case "FE":
				if e.Seq >= len(sent) {
					viol("fragment-delivered", fmt.Sprintf("a handler received line %d, which was never sent whole: only an unterminated fragment had arrived when the link dropped", e.Seq))
					bad = true
					break
				}
				if e.Seq >= 0 && e.Seq < len(sent) && e.S != fmt.Sprint(sent[e.Seq].size) {
					viol("line-not-whole", fmt.Sprintf("line %d was sent with %d bytes, the handler received %s bytes", e.Seq, sent[e.Seq].size, e.S))
					bad = true
					break
				}
				if len(open) > 0 && openSeq != e.Seq {
					viol("overlap", fmt.Sprintf("foreground handler for line %d entered while handlers of line %d were still running", e.Seq, openSeq))
					bad = true
					break
				}
				if len(open) > 0 {
					sameLineOverlap = true
				}
				if len(dispatched) == 0 || dispatched[len(dispatched)-1] != e.Seq {
					if len(dispatched) > 0 && e.Seq < dispatched[len(dispatched)-1] {
						viol("out-of-order", fmt.Sprintf("line %d delivered after line %d", e.Seq, dispatched[len(dispatched)-1]))
						bad = true
						break
					}
					// a line already left behind must not come back
					for _, d := range dispatched {
						if d == e.Seq {
							viol("re-entered", fmt.Sprintf("line %d delivered again after a later line", e.Seq))
							bad = true
						}
					}
					dispatched = append(dispatched, e.Seq)
				}
				open[[2]int{e.Seq, e.H}] = true
				openSeq = e.Seq
				openFgTotal++
				fgCount[[2]int{e.Seq, e.H}]++
				if deTick != 0 {
					viol("fg-after-disconnected", fmt.Sprintf("foreground handler for line %d entered after DISCONNECTED was delivered", e.Seq))
					bad = true
				}
			case "FX":
				delete(open, [2]int{e.Seq, e.H})
				lastFgExit[e.Seq] = e.Tick
				if deTick != 0 {
					viol("fg-exit-after-disconnected", fmt.Sprintf("foreground handler for line %d was still running when DISCONNECTED was delivered", e.Seq))
					bad = true
				}
			case "BE":
				bgCount[[2]int{e.Seq, e.H}]++
				// all foreground handlers of earlier lines must have exited
				for k := range open {
					if k[0] < e.Seq {
						viol("bg-before-earlier-fg-done", fmt.Sprintf("background handler for line %d entered while a foreground handler of line %d was running", e.Seq, k[0]))
						bad = true
					}
				}
			case "CE":
				nCE++
				ceTick = e.Tick
				for k := range open {
					viol("connected-during-fg", fmt.Sprintf("CONNECTED delivered while a foreground handler of line %d was running", k[0]))
					bad = true
					break
				}
			case "CX":
				cxTick = e.Tick
			case "DE":
				nDE++
				deTick = e.Tick
				if len(open) > 0 {
					viol("disconnected-during-fg", "DISCONNECTED delivered while foreground handlers were still running")
					bad = true
				}
			}
		}
		_ = maxExitBelow
		if !bad {
			// every dispatched line: each registered handler exactly once
			hBase := 0
			hOf := map[string][2][]int{} // verb -> (fg ids, bg ids)
			for v := 0; v < nV; v++ {
				var f, b []int
				for k := 0; k < nFg[v]; k++ {
					hBase++
					f = append(f, hBase)
				}
				for k := 0; k < nBg[v]; k++ {
					hBase++
					b = append(b, hBase)
				}
				hOf[verbNames[v]] = [2][]int{f, b}
			}
			for _, d := range dispatched {
				hs := hOf[sent[d].verb]
				for _, h := range hs[0] {
					if n := fgCount[[2]int{d, h}]; n != 1 {
						viol("fg-count", fmt.Sprintf("foreground handler %d ran %d times for line %d", h, n, d))
						bad = true
						break
					}
				}
				if bad {
					break
				}
			}
			if !bad && endedBy == "drain" {
				if len(dispatched) != len(sent) {
					got := map[int]bool{}
					for _, d := range dispatched {
						got[d] = true
					}
					miss := ""
					for _, snt := range sent {
						if !got[snt.seq] {
							miss += fmt.Sprintf(" #%d(%s)", snt.seq, snt.verb)
						}
					}
					viol("lines-missing", fmt.Sprintf("%d of %d lines were delivered although the session was drained before closing; missing:%s", len(dispatched), len(sent), miss))
					bad = true
				} else {
					for _, snt := range sent {
						hs := hOf[snt.verb]
						for _, h := range hs[1] {
							if n := bgCount[[2]int{snt.seq, h}]; n != 1 {
								viol("bg-count", fmt.Sprintf("background handler %d ran %d times for line %d", h, n, snt.seq))
								bad = true
								break
							}
						}
						if bad {
							break
						}
					}
				}
			}
		}
		if !bad && welcomeAt >= 0 {
			if nCE > 1 {
				viol("connected-count", fmt.Sprintf("CONNECTED delivered %d times for one welcome", nCE))
			} else if nCE == 0 && endedBy == "drain" {
				// (with an abrupt end the welcome itself may be among the discarded lines while a later one is still dispatched)
				viol("connected-missing", "welcome line was processed but CONNECTED was never delivered")
			} else if nCE == 1 {
				for s2, t := range lastFgExit {
					if s2 < welcomeAt && t > ceTick {
						viol("connected-early", fmt.Sprintf("CONNECTED entered before foreground handlers of earlier line %d exited", s2))
					}
				}
				for _, e := range ev {
					if (e.Kind == "FE" || e.Kind == "BE") && e.Seq >= welcomeAt && e.Tick < cxTick && cxTick != 0 {
						viol("connected-late", fmt.Sprintf("a handler for later line %d entered before the CONNECTED handler had finished", e.Seq))
						break
					}
				}
				if n, _ := connNick.Load().(string); n != welcomeNick {
					viol("connected-nick", fmt.Sprintf("Me().Nick was %q inside the CONNECTED handler, welcome said %q", n, welcomeNick))
				}
			}
		}
		if !bad && nDE != 1 {
			viol("disconnected-count", fmt.Sprintf("DISCONNECTED delivered %d times", nDE))
		}
		c.R.Count("lines_dispatched", int64(len(dispatched)))
		c.R.Count("fg_invocations", int64(openFgTotal))
		if sameLineOverlap {
			c.R.Count("sessions_with_same_line_overlap", 1)
		}
		if crossing {
			c.R.Count("sessions_with_line_across_segments", 1)
		}
		if sameLineOverlap && crossing {
			c.R.Class(fmt.Sprintf("seg=%s|end=%s|procs=%s|dur=%d|long=%v|welcome=%v|floodprotection=%v|slow-teardown=%v", segMode, endedBy, procs, durMix, longLines, welcomeAt >= 0, floodOn, slowTeardown))
		}
		if idx%5 == 0 {
			c.R.Sample(map[string]interface{}{"lines": nLines, "segmentation": segMode, "segments": len(cuts) + 1, "ending": endedBy, "duration_mix": durMix, "long_lines": longLines,
				"welcome_at": welcomeAt, "procs": procs, "dispatched": len(dispatched), "events": len(ev), "same_line_overlap_seen": sameLineOverlap})
		}
		s.Release()
	}
}
