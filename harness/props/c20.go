package props

import (
	"fmt"
	"regexp"
	"strings"
	"time"

	sasl "github.com/emersion/go-sasl"
	"github.com/fluffle/goirc/client"
	"github.com/fluffle/goirc/state"

	"verif/harness/rig"
)

func init() {
	register(&Property{
		ID: "C20",
		Rule: "passwords of 1..200 printable bytes (letters, digits, spaces, '%' verbs, leading ':', quotes) are configured on clients with and without capability negotiation, SASL and tracking; sessions: successful registration plus traffic, " +
			"dial refused, first write failing, EOF during registration, and a reconnect; a capturing logging.Logger receives every record of every level; the password must not occur in any record's formatted text or in any argument, " +
			"and when a PASS line reached the wire a masked '-> PASS **************' record must exist. Plus flood-protected sessions that reconnect right after a burst, so that the PASS line itself is held back by the penalty. Every scenario is also run with an empty password: a password that occurs in that control log is trivial and skipped (counted). " +
			"Sessions also include connections ended (reset, Close) while registration lines are still queued behind a stalled write, and clients built from configurations lacking a nick or ident (never connected). Also: the password handed to ConnectTo, welcome-and-drop before a reconnect, welcomes under another nick. Also Pass() called while disconnected before the next connect. Half of the sessions belong to an application whose own handlers panic on REGISTER, CONNECTED, DISCONNECTED, 001, NOTICE and CAP in both handler sets (default recovery function). distinct_nontrivial = distinct (password class, session kind, negotiation, sasl, tracking) cells among judged cases.",
		Assumptions: []string{"the SASL secret is a different secret and not the subject of this property"},
		Plan: func(tier string, seed int64) []Batch {
			n := 6
			if tier == "thorough" {
				n = 12
			}
			bs := splitBatches("pw", n, true, 2, map[string]string{})
			// flood protection on + immediate reconnect: the penalty carried over delays the PASS line itself (real 2 s holds)
			nf := 2
			if tier == "thorough" {
				nf = 8
			}
			for i := 0; i < nf; i++ {
				bs = append(bs, Batch{Name: fmt.Sprintf("floodrc-%d", i), Args: map[string]string{"mode": "floodrc", "k": fmt.Sprint(i)}, Race: true, Procs: 2})
			}
			return bs
		},
		Run: runC20,
	})
}

func c20Password(r interface{ Intn(int) int }) (string, string) {
	alpha := "abcdefghijklmnopqrstuvwxyzABCDEFGHIJKLMNOPQRSTUVWXYZ0123456789"
	pick := func(n int, a string) string {
		b := make([]byte, n)
		for i := range b {
			b[i] = a[r.Intn(len(a))]
		}
		return string(b)
	}
	switch r.Intn(11) {
	case 9:
		return pick(505+r.Intn(3), alpha), "length-505..507 (line length boundary)"
	case 10:
		return pick(600+r.Intn(4500), alpha), "long600..5000"
	case 0:
		return pick(1+r.Intn(3), alpha), "short"
	case 1:
		return pick(8+r.Intn(12), alpha), "alnum"
	case 2:
		return pick(4, alpha) + " " + pick(5, alpha) + "  " + pick(3, alpha), "spaces"
	case 3:
		return pick(3, alpha) + "%s%d%v%!" + pick(4, alpha) + "%", "fmtverbs"
	case 4:
		return ":" + pick(9, alpha), "lead-colon"
	case 5:
		return pick(200, alpha+" !\"#$%&'()*+,-./:;<=>?@[\\]^_`{|}~"), "long200"
	case 6:
		return "PASS" + pick(6, alpha), "starts-with-PASS"
	case 7:
		return pick(5, alpha) + "**************" + pick(3, alpha), "contains-mask"
	default:
		return pick(6+r.Intn(20), alpha+" !\"#$%&'()*+,-./:;<=>?@[\\]^_`{|}~"), "punct"
	}
}

// c20Session runs one session and returns the log records and whether a PASS line reached the wire.
func c20Session(c *Ctx, logger *rig.CapLogger, pass, kind string, capn, useSasl, tracking bool, failAt int) (recs []rig.LogRecord, passOnWire bool, ok bool) {
	logger.Reset()
	if kind == "badcfg" {
		// clients built from configurations that lack a usable identity (Client() substitutes its defaults), never
		// connected: whatever Client(), Config() and String() log must not show the password either
		for v := 0; v < 4; v++ {
			cfg := &client.Config{Server: "irc.test", Pass: pass, EnableCapabilityNegotiation: capn}
			switch v {
			case 1:
				cfg.Me = &state.Nick{Nick: "", Ident: "ident"}
			case 2:
				cfg.Me = &state.Nick{Nick: "nick", Ident: ""}
			case 3:
				cfg = client.NewConfig("")
				cfg.Server, cfg.Pass = "irc.test", pass
			}
			conn := client.Client(cfg)
			if tracking {
				conn.EnableStateTracking()
			}
			_ = conn.String()
			_ = conn.Config()
			conn.Close()
		}
		return logger.Records(), false, true
	}
	s := NewSession(SessionOpts{Flood: true, Tracking: tracking, Mutate: func(cfg *client.Config) {
		cfg.Pass = pass
		if kind == "connectto" {
			cfg.Pass = ""
		}
		cfg.EnableCapabilityNegotiation = capn
		if useSasl {
			cfg.Sasl = sasl.NewPlainClient("", "saslu", "saslsecret")
		}
	}})
	defer s.Release()
	switch kind {
	case "scrub":
		// the application wipes Config().Pass as soon as registration has been issued (the documentation allows
		// changing it after connecting); the PASS line is still queued then: the server starts reading only afterwards
		s.EP.Prepare(func(mc *rig.MemConn) { mc.Stall(0) })
		s.Conn.HandleFunc(client.REGISTER, func(cc *client.Conn, l *client.Line) { cc.Config().Pass = "" })
	case "stallclose":
		// the server never reads: the first registration line blocks in the write and the others (PASS among them
		// when negotiation is on) are still queued when the connection ends and the queue is discarded
		s.EP.Prepare(func(mc *rig.MemConn) { mc.Stall(0) })
	case "refused":
		s.EP.RefuseNext(nil)
	case "writeerr":
		s.EP.Prepare(func(mc *rig.MemConn) { mc.FailWrite(failAt, nil) })
	case "eof":
		s.EP.Prepare(func(mc *rig.MemConn) { mc.SendEOF() })
	}
	disc := make(chan struct{}, 4)
	s.Conn.HandleFunc(client.DISCONNECTED, func(_ *client.Conn, l *client.Line) { disc <- struct{}{} })
	if (failAt+len(kind))%2 == 0 {
		// an application whose own handlers are faulty: they panic on the lifecycle events and on the first server
		// lines, in both handler sets, and the default recovery function writes what it writes about that to the log
		boom := func(_ *client.Conn, l *client.Line) {
			var m map[string]int
			m[l.Cmd]++
		}
		for _, ev := range []string{client.REGISTER, client.CONNECTED, client.DISCONNECTED, "001", "NOTICE", "CAP"} {
			s.Conn.HandleFunc(ev, boom)
			s.Conn.HandleBG(ev, client.HandlerFunc(boom))
		}
		c.R.Count("sessions_with_panicking_application_handlers", 1)
	}
	cycles := 1
	if kind == "reconnect" || kind == "wdrop" || kind == "passwhiledown" {
		cycles = 2
	}
	for cy := 0; cy < cycles; cy++ {
		var err error
		if kind == "connectto" {
			// the password is not in the configuration: it is handed over with the call
			err = s.Conn.ConnectTo("irc.test", pass)
		} else {
			err = s.Conn.Connect()
		}
		if kind == "refused" {
			return logger.Records(), false, err != nil
		}
		if err != nil {
			c.R.Inconcl("connect: " + err.Error())
			return nil, false, false
		}
		mc := s.EP.Last()
		if kind == "scrub" {
			mc.Resume()
		}
		switch kind {
		case "stallclose":
			for k := 0; k < 50*failAt; k++ {
				runtimeGosched()
			}
			if failAt == 1 {
				mc.ResetByPeer(nil)
			} else if !CloseWatched(s.Conn) {
				c.R.Inconcl("Close did not return")
				return nil, false, false
			}
			if !waitCh(chanOf(disc)) {
				c.R.Inconcl("no DISCONNECTED after ending a stalled connection")
				return nil, false, false
			}
		case "writeerr", "eof":
			if !waitCh(chanOf(disc)) {
				c.R.Inconcl("no DISCONNECTED after an injected " + kind)
				return nil, false, false
			}
		default:
			if !AwaitRegistration(mc) {
				c.R.Inconcl("registration not seen")
				return nil, false, false
			}
			if kind == "wdrop" && cy == 0 {
				// the server welcomes the client and drops the link at once: the teardown races the welcome's handlers
				mc.SendBytes([]byte(":srv 001 me :Welcome me!ident@host\r\n"))
				mc.SendEOF()
				if !waitCh(chanOf(disc)) {
					c.R.Inconcl("no DISCONNECTED after welcome and drop")
					return nil, false, false
				}
				for _, l := range mc.Lines() {
					if strings.HasPrefix(l, "PASS ") {
						passOnWire = true
					}
				}
				continue
			}
			if capn {
				mc.SendLine(":srv CAP * LS :sasl multi-prefix")
			}
			if failAt%2 == 0 {
				// the server registers the client under another nick than it asked for
				mc.SendLine(":srv 001 given :Welcome given!ident@host")
			} else {
				mc.SendLine(":srv 001 me :Welcome me!ident@host")
			}
			mc.SendLine(":srv 433 me other :in use")
			mc.SendLine(":x!y@z PRIVMSG me :\x01VERSION\x01")
			mc.SendLine("garbage")
			mc.SendLine(":srv FOO")
			if tracking {
				mc.SendLine(":me!ident@host JOIN #c")
				mc.SendLine(":srv MODE #nochan +o x")
			}
			if !s.WireMarker(mc) {
				c.R.Inconcl("marker not reached")
				return nil, false, false
			}
			if !CloseWatched(s.Conn) {
				c.R.Inconcl("Close did not return")
				return nil, false, false
			}
			<-disc
		}
		for _, l := range mc.Lines() {
			if strings.HasPrefix(l, "PASS ") {
				passOnWire = true
			}
		}
		if kind == "passwhiledown" && cy == 0 {
			// the application hands the password over while the client is not connected (the call just queues the
			// line; whatever becomes of that queue at the next connect, the line is never logged in clear)
			if !watched(func() { s.Conn.Pass(pass) }) {
				c.R.Inconcl("Pass() on a disconnected client did not return")
				return nil, false, false
			}
		}
	}
	return logger.Records(), passOnWire, true
}

// c20RecHas reports whether the record's text, format or any argument contains s.
func c20RecHas(rec *rig.LogRecord, s string) bool {
	// the harness's own endpoint id (part of the proxy URL the library logs) differs from session to session
	norm := func(x string) string { return c20EpRe.ReplaceAllString(x, "verifmem://ep") }
	if strings.Contains(norm(rec.Text), s) || strings.Contains(rec.Format, s) {
		return true
	}
	for _, a := range rec.Args {
		if strings.Contains(norm(fmt.Sprintf("%v", a)), s) {
			return true
		}
	}
	return false
}

var c20EpRe = regexp.MustCompile(`verifmem(ctx)?://ep[0-9]+`)

// runC20FloodReconnect: with flood protection on, a client that reconnects right after a burst has its
// PASS line rate-limited; whatever the library logs about the delayed line must not contain the password.
func runC20FloodReconnect(c *Ctx) {
	k := c.ArgInt("k", 0)
	if !c.Want("floodrc", k) {
		return
	}
	r := rig.Rand(c.Seed, "C20", "floodrc", k)
	pass := "pw"
	for i := 0; i < 14; i++ {
		pass += string(rune('a' + r.Intn(26)))
	}
	if k%2 == 1 {
		pass += " with space"
	}
	logger := rig.NewCapLogger(nil)
	c.J.Log("CASE %s flood-protected reconnect", Case("floodrc", k))
	s := NewSession(SessionOpts{Flood: false, Tracking: k%2 == 0, Mutate: func(cfg *client.Config) { cfg.Pass = pass }})
	defer s.Release()
	held := 0
	for cycle := 0; cycle < 2; cycle++ {
		mc, err := s.Connect()
		if err != nil {
			c.R.Inconcl("connect: " + err.Error())
			return
		}
		// the registration burst may be held back by flood protection: 2 s + per line, real time
		if mc.WaitLineFrom(60*time.Second, 0, func(l string) bool { return strings.HasPrefix(l, "USER ") }) < 0 {
			c.R.Inconcl("registration not seen within 60 s")
			return
		}
		if cycle == 0 {
			// two more lines push the penalty close to the threshold
			if !s.WireMarker(mc) {
				c.R.Inconcl("marker not reached")
				return
			}
		}
		if !CloseWatched(s.Conn) {
			c.R.Inconcl("Close did not return")
			return
		}
	}
	recs := logger.Records()
	c.R.Eval(1)
	masked := 0
	for _, rec := range recs {
		if strings.Contains(rec.Format, "Flood! Sleeping") {
			held++
		}
		if rec.Text == "-> PASS **************" {
			masked++
		}
		if c20RecHas(&rec, pass) {
			c.R.Violate(rig.Violation{Sig: "c20|password-in-log|" + rec.Level, Detail: fmt.Sprintf("a %s record contains the connection password (flood-protected reconnect): format %q", rec.Level, rec.Format), Case: Case("floodrc", k),
				Witness: map[string]interface{}{"record": rec.Text}})
			break
		}
	}
	if masked != 2 {
		c.R.Violate(rig.Violation{Sig: "c20|no-masked-record", Detail: fmt.Sprintf("%d masked PASS records for 2 connections", masked), Case: Case("floodrc", k)})
	}
	c.R.Count("flood_holds_logged", int64(held))
	c.R.Count("log_records_examined", int64(len(recs)))
	c.R.Class(fmt.Sprintf("floodrc|holds>0=%v|space=%v", held > 0, k%2 == 1))
	c.R.Sample(map[string]interface{}{"session": "flood-protected reconnect", "flood_holds_logged": held, "records": len(recs)})
}

func runC20(c *Ctx) {
	if c.Arg("mode", "") == "floodrc" {
		runC20FloodReconnect(c)
		return
	}
	part, parts := c.ArgInt("part", 0), c.ArgInt("parts", 1)
	total := c.Pick(4000, 100000)
	per := total / parts
	logger := rig.NewCapLogger(nil)
	kinds := []string{"ok", "ok", "refused", "writeerr", "eof", "reconnect", "scrub", "stallclose", "badcfg", "connectto", "wdrop", "passwhiledown"}
	for i := 0; i < per; i++ {
		idx := part*per + i
		if !c.Want("pw", idx) {
			continue
		}
		r := rig.Rand(c.Seed, "C20", idx)
		pass, pclass := c20Password(r)
		kind := kinds[r.Intn(len(kinds))]
		capn, useSasl, tracking := r.Intn(2) == 0, r.Intn(3) == 0, r.Intn(2) == 0
		c.J.Log("CASE %s kind=%s cap=%v sasl=%v tracking=%v passlen=%d", Case("pw", idx), kind, capn, useSasl, tracking, len(pass))
		// control runs with an empty password: the same session (the write fault one line earlier, as there is no
		// PASS line) and a complete successful one; a password occurring in either log is trivial
		// (the masked record itself is a constant part of every log with a password)
		trivialMask := strings.Contains("-> PASS **************", pass)
		failAt := 1 + r.Intn(2) // at most the second write: every session writes at least NICK and USER
		trivial := trivialMask
		for _, ck := range []struct {
			kind string
			at   int
		}{{kind, max(failAt-1, 1)}, {kind, failAt}, {"ok", 0}} {
			ctl, _, ok := c20Session(c, logger, "", ck.kind, capn, useSasl, tracking, ck.at)
			if !ok {
				return
			}
			for _, rec := range ctl {
				if c20RecHas(&rec, pass) {
					trivial = true
				}
			}
		}
		recs, onWire, ok := c20Session(c, logger, pass, kind, capn, useSasl, tracking, failAt)
		if !ok {
			return
		}
		c.R.Eval(1)
		c.R.Count("log_records_examined", int64(len(recs)))
		if trivial {
			c.R.Count("trivial_passwords_skipped", 1)
			continue
		}
		masked := false
		for _, rec := range recs {
			if c20RecHas(&rec, pass) {
				c.R.Violate(rig.Violation{
					Sig:     "c20|password-in-log|" + rec.Level,
					Detail:  fmt.Sprintf("a %s record contains the connection password (class %s, session %s): format %q", rec.Level, pclass, kind, rec.Format),
					Case:    Case("pw", idx),
					Witness: map[string]interface{}{"record": rec.Text, "password": pass},
				})
				break
			}
			if rec.Text == "-> PASS **************" {
				masked = true
			}
		}
		if onWire && !masked {
			c.R.Violate(rig.Violation{Sig: "c20|no-masked-record", Detail: fmt.Sprintf("a PASS line was written (session %s) but no masked '-> PASS **************' record reached the logger", kind), Case: Case("pw", idx)})
		}
		if onWire {
			c.R.Count("sessions_with_pass_on_wire", 1)
		}
		c.R.Class(fmt.Sprintf("%s|%s|cap=%v|sasl=%v|tracking=%v", pclass, kind, capn, useSasl, tracking))
		if idx%197 == 0 {
			c.R.Sample(map[string]interface{}{"password_class": pclass, "password_len": len(pass), "session": kind, "records": len(recs), "pass_on_wire": onWire})
		}
	}
}
