package props

import (
	"fmt"
	"runtime"
	"strings"
	"sync"
	"sync/atomic"
	"time"

	"github.com/fluffle/goirc/client"

	"verif/harness/rig"
)

// Supervised reconnect: an application goroutine (a "supervisor") calls Connect over and over from the moment the
// link drops, without waiting for DISCONNECTED - while a foreground handler of the old connection is still running.
// The library serialises this behind the teardown; whatever the supervisor's timing, the handlers of the two
// connections' lines never overlap, each connection's lines keep their order, DISCONNECTED of the old connection
// comes after its last handler has returned, and (with state tracking) a running handler never sees the tracker
// reflect anything later than its own line - in particular not the wipe and the joins of the next connection.
//
// Used by C03 (order / non-overlap / DISCONNECTED placement) and C05 (tracker view of the slow handler).
func runSupervised(c *Ctx, prop string) {
	rounds := c.Pick(30, 400)
	if c.Arg("heavy", "") == "1" {
		rounds = 1200
	}
	procs, salt := c.Arg("procs", "?"), c.Arg("salt", "")
	for idx := 0; idx < rounds; idx++ {
		if !c.Want("sup", idx) {
			continue
		}
		r := rig.Rand(c.Seed, "supervised", prop, procs, salt, idx)
		cause := []string{"eof", "readerr", "close", "writeerr"}[r.Intn(4)]
		nBefore, nAfter := 3+r.Intn(20), r.Intn(40)
		nNew := 5 + r.Intn(40)
		holdUs := []int{0, 200, 2000, 20000}[r.Intn(4)]
		tracking := prop == "C05" || r.Intn(2) == 0
		c.J.Log("CASE %s cause=%s before=%d after=%d new=%d hold=%dus tracking=%v", Case("sup", idx), cause, nBefore, nAfter, nNew, holdUs, tracking)

		lg := rig.NewLog()
		s := NewSession(SessionOpts{Tracking: tracking, Flood: true, Log: lg})
		conn := s.Conn
		gate := make(chan struct{})
		var gated int32
		var trackerBad atomic.Value
		// generation g, sequence n: "SUP g n"; the line (0, nBefore) is the slow one
		conn.HandleFunc("SUP", func(cc *client.Conn, l *client.Line) {
			var g, n int
			fmt.Sscanf(strings.Join(l.Args, " "), "%d %d", &g, &n)
			lg.Add(rig.Event{Kind: "ENTER", Conn: g, Seq: n})
			if g == 0 && n == nBefore {
				atomic.StoreInt32(&gated, 1)
				// a slow handler: it keeps looking at the tracker while the link drops and the supervisor reconnects
				for open := false; !open; {
					select {
					case <-gate:
						open = true
					default:
						if st := cc.StateTracker(); st != nil {
							if st.GetChannel("#gen0") == nil {
								trackerBad.Store("the channel joined before this handler's line (#gen0) is no longer tracked while the handler runs")
							}
							if st.GetChannel("#gen1") != nil {
								trackerBad.Store("a channel joined on the next connection (#gen1) is already tracked while a handler of the previous connection runs")
							}
						}
						runtime.Gosched()
					}
				}
			}
			lg.Add(rig.Event{Kind: "EXIT", Conn: g, Seq: n})
		})
		conn.HandleFunc(client.DISCONNECTED, func(_ *client.Conn, l *client.Line) { lg.Add(rig.Event{Kind: "DISC"}) })

		mc0, err := s.Connect()
		if err != nil {
			c.R.Inconcl("connect: " + err.Error())
			return
		}
		if !AwaitRegistration(mc0) {
			c.R.Inconcl("registration not seen")
			return
		}
		mc0.SendLine(":srv 001 me :Welcome")
		if tracking {
			mc0.SendLine(":me!ident@host JOIN #gen0")
		}
		var buf []byte
		for n := 1; n <= nBefore+nAfter; n++ {
			buf = append(buf, fmt.Sprintf(":srv SUP 0 %d\r\n", n)...)
		}
		mc0.SendBytes(buf)
		if !waitUntil(func() bool { return atomic.LoadInt32(&gated) == 1 }) {
			c.R.Inconcl(fmt.Sprintf("%s: the slow handler was never entered", Case("sup", idx)))
			return
		}
		// the supervisor: connects as soon as the library lets it
		supDone := make(chan error, 1)
		var refusedN int64
		supStop := make(chan struct{})
		go func() {
			for {
				select {
				case <-supStop:
					supDone <- fmt.Errorf("stopped")
					return
				default:
				}
				err := conn.Connect()
				if err == nil {
					lg.Add(rig.Event{Kind: "RECONNECTED"})
					mc1 := s.EP.Last()
					mc1.SendLine(":srv 001 me :Welcome")
					if tracking {
						mc1.SendLine(":me!ident@host JOIN #gen1")
					}
					var b []byte
					for n := 1; n <= nNew; n++ {
						b = append(b, fmt.Sprintf(":srv SUP 1 %d\r\n", n)...)
					}
					mc1.SendBytes(b)
					supDone <- nil
					return
				}
				atomic.AddInt64(&refusedN, 1)
				runtime.Gosched()
			}
		}()
		// the link drops (or the application closes) while the handler is still running
		closeRet := make(chan struct{})
		switch cause {
		case "eof":
			mc0.SendEOF()
			close(closeRet)
		case "readerr":
			mc0.SendErr(nil)
			close(closeRet)
		case "writeerr":
			mc0.FailWrite(1, nil)
			conn.Raw("PROBE")
			close(closeRet)
		case "close":
			go func() { conn.Close(); close(closeRet) }()
		}
		if holdUs > 0 {
			time.Sleep(time.Duration(holdUs) * time.Microsecond)
		} else {
			for k := 0; k < 50; k++ {
				runtime.Gosched()
			}
		}
		lg.Add(rig.Event{Kind: "GATE-OPEN"})
		close(gate)
		var supErr error
		select {
		case supErr = <-supDone:
		default:
			done := make(chan struct{})
			go func() { supErr = <-supDone; close(done) }()
			if !waitCh(done) {
				// (a reconnect that never succeeds is C07's business; here it only leaves the round undecided)
				close(supStop)
				c.R.Inconcl(fmt.Sprintf("%s: the supervisor did not get a new connection (cause %s)", Case("sup", idx), cause))
				return
			}
		}
		if supErr != nil {
			c.R.Inconcl(fmt.Sprintf("%s: supervisor: %v", Case("sup", idx), supErr))
			return
		}
		if !waitCh(closeRet) {
			// a teardown that never finishes is C07's business: this round has no verdict here
			if ds := rig.ProveDead(WaitShort); ds.Dead {
				c.R.Count("rounds_abandoned_because_close_never_returned", 1)
				c.R.Note(fmt.Sprintf("%s: Close never returned (%s)", Case("sup", idx), ds.Signature))
				s.Release()
				continue
			}
			c.R.Inconcl(fmt.Sprintf("%s: Close did not return", Case("sup", idx)))
			return
		}
		mc1 := s.EP.Last()
		if !s.FgMarker(mc1) {
			ds := rig.ProveDead(WaitShort)
			if ds.Dead {
				c.R.Violate(rig.Violation{Sig: strings.ToLower(prop) + "|supervised-new-connection-stuck|" + ds.Signature, Detail: "after a supervised reconnect the new connection's lines are never all delivered: dead state " + ds.Signature, Case: Case("sup", idx), Witness: ds.Dump})
				s.Release()
				continue
			}
			c.R.Inconcl(fmt.Sprintf("%s: marker on the new connection not reached (%s)", Case("sup", idx), ds.Reason))
			return
		}
		// ---- judge the event log ----
		evs := lg.Events()
		c.R.Eval(1)
		c.R.Count("supervised_reconnects", 1)
		c.R.Count("supervisor_connects_refused_or_blocked", atomic.LoadInt64(&refusedN))
		viol := func(kind, detail string) {
			var tail []string
			for _, e := range evs {
				if e.Kind != "" && len(tail) < 60 {
					tail = append(tail, fmt.Sprintf("%d:%s g%d n%d", e.Tick, e.Kind, e.Conn, e.Seq))
				}
			}
			c.R.Violate(rig.Violation{Sig: strings.ToLower(prop) + "|supervised-" + kind, Detail: fmt.Sprintf("%s (cause=%s, tracking=%v, procs=%s)", detail, cause, tracking, procs), Case: Case("sup", idx), Witness: tail})
		}
		if prop == "C05" {
			if v, _ := trackerBad.Load().(string); v != "" {
				viol("tracker-moved-under-handler", v)
			}
		} else if prop == "C06" {
			// two connections were established; the second is closed now: each gets its one DISCONNECTED
			closed := CloseWatched(conn)
			if _, quiet := rig.WaitNoLib(WaitShort, 400); closed && !quiet {
				// (the goroutine that ended the first connection may not have delivered its DISCONNECTED yet - unless
				// nothing can move any more: then the count is final)
				if ds := rig.ProveDead(WaitShort); !ds.Dead {
					c.R.Inconcl(fmt.Sprintf("%s: library goroutines still running after Close (%s)", Case("sup", idx), ds.Reason))
					return
				}
			}
			nd := 0
			for _, e := range lg.Events() {
				if e.Kind == "DISC" {
					nd++
				}
			}
			if !closed {
				if ds := rig.ProveDead(WaitShort); ds.Dead {
					viol("disconnected-never|"+ds.Signature, "Close of the connection the supervisor had established never returns: "+ds.Signature)
				} else {
					c.R.Inconcl(fmt.Sprintf("%s: Close did not return (%s)", Case("sup", idx), ds.Reason))
					return
				}
			} else if nd != 2 {
				viol("disconnected-count", fmt.Sprintf("two connections were established (the second by a supervisor while the first was being torn down) and both ended; DISCONNECTED fired %d times", nd))
			}
		} else {
			type key struct{ g, n int }
			open := map[key]bool{}
			last := map[int]int{}
			discSeen := false
			overlapWithReconnect := false
			for _, e := range evs {
				switch e.Kind {
				case "ENTER":
					k := key{e.Conn, e.Seq}
					for o := range open {
						if o != k {
							viol("overlap", fmt.Sprintf("the handler for line %d of connection %d started while the handler for line %d of connection %d was still running", e.Seq, e.Conn, o.n, o.g))
							goto judged
						}
					}
					if e.Seq <= last[e.Conn] {
						viol("order", fmt.Sprintf("line %d of connection %d handled after line %d", e.Seq, e.Conn, last[e.Conn]))
						goto judged
					}
					if e.Conn == 0 && discSeen {
						viol("line-after-disconnected", fmt.Sprintf("line %d of the first connection was handled after its DISCONNECTED", e.Seq))
						goto judged
					}
					last[e.Conn] = e.Seq
					open[k] = true
				case "EXIT":
					delete(open, key{e.Conn, e.Seq})
				case "DISC":
					for o := range open {
						if o.g == 0 {
							viol("disconnected-before-handler-done", fmt.Sprintf("DISCONNECTED was delivered while the handler for line %d of that connection was still running", o.n))
							goto judged
						}
					}
					discSeen = true
				case "RECONNECTED":
					if len(open) > 0 {
						overlapWithReconnect = true
					}
				}
			}
			if last[1] != nNew {
				viol("new-lines-lost", fmt.Sprintf("%d lines were sent on the new connection, the last one handled is %d", nNew, last[1]))
			}
			_ = overlapWithReconnect
		}
	judged:
		c.R.Class(fmt.Sprintf("sup|%s|tracking=%v|hold=%d|procs=%s", cause, tracking, holdUs, procs))
		CloseWatched(conn)
		s.Release()
		if c.R.NumViolations() > 8 {
			return
		}
	}
}

var _ = sync.Mutex{}
