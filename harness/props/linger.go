package props

import (
	"context"
	"fmt"
	"sync/atomic"

	"github.com/fluffle/goirc/client"

	"verif/harness/rig"
)

// Lingering-handler rounds (C06 and C17): the connection is ended by the server, the application's DISCONNECTED
// handler reconnects - the usual idiom - and then stays busy. While it is busy (so the goroutine that tore the first
// connection down is still inside its Close), the second connection lives a whole life of its own: it registers, is
// welcomed under another nick than the one asked for, has its nick changed again, and - in the C06 rounds - ends
// (server EOF, read error, a Close from the application, or the cancellation of its context). Only then does the
// first handler return.
//
//	C06: each connection gets exactly one REGISTER and one DISCONNECTED, Connected() is false afterwards, and a
//	     second connection that is never reported as ended is a violation once the process is provably dead.
//	C17: after the old teardown has completely finished, Me() and Config().Me still carry the nick the server uses on
//	     the connection that is up.
func runLingerRounds(c *Ctx, prop string) {
	rounds := c.Pick(40, 300)
	procs := c.Arg("procs", "?")
	for idx := 0; idx < rounds; idx++ {
		if !c.Want("linger", idx) {
			continue
		}
		r := rig.Rand(c.Seed, prop, "linger", procs, idx)
		tracking := r.Intn(2) == 0
		end2 := []string{"eof", "readerr", "close", "cancel"}[r.Intn(4)]
		if prop == "C17" {
			end2 = "stays-up"
		}
		c.J.Log("CASE %s tracking=%v end2=%s", Case("linger", idx), tracking, end2)
		s := NewSession(SessionOpts{Flood: true, Tracking: tracking, CtxAware: end2 == "cancel", Nick: "bot"})
		conn := s.Conn
		viol := func(kind, detail string) {
			c.R.Violate(rig.Violation{Sig: fmt.Sprintf("%s|linger-%s", map[string]string{"C06": "c06", "C17": "c17"}[prop], kind),
				Detail: fmt.Sprintf("%s (tracking=%v, second connection %s)", detail, tracking, end2), Case: Case("linger", idx)})
		}
		var nReg, nDisc int64
		release := make(chan struct{})
		reconnected := make(chan error, 1)
		second := make(chan struct{}, 4)
		var cancel2 context.CancelFunc
		conn.HandleFunc(client.REGISTER, func(_ *client.Conn, _ *client.Line) { atomic.AddInt64(&nReg, 1) })
		conn.HandleFunc(client.DISCONNECTED, func(cc *client.Conn, _ *client.Line) {
			if atomic.AddInt64(&nDisc, 1) == 1 {
				var err error
				if end2 == "cancel" {
					var ctx context.Context
					ctx, cancel2 = context.WithCancel(context.Background())
					err = cc.ConnectContext(ctx)
				} else {
					err = cc.Connect()
				}
				reconnected <- err
				<-release // busy until the second connection has had its life
				return
			}
			second <- struct{}{}
		})
		finish := func() {
			select {
			case <-release:
			default:
				close(release)
			}
		}
		mc1, err := s.Connect()
		if err != nil {
			c.R.Inconcl("connect: " + err.Error())
			return
		}
		if !AwaitRegistration(mc1) {
			c.R.Inconcl("registration not seen")
			finish()
			return
		}
		// the first session: a collision, so that the nick in use is not the configured one, then the welcome
		mc1.SendLine(":srv 433 * bot :Nickname is already in use")
		mc1.WaitLineFrom(WaitLong, 0, func(l string) bool { return l == "NICK bou" })
		mc1.SendLine(":srv 001 bou :Welcome")
		if !s.FgMarker(mc1) {
			c.R.Inconcl("first session's marker not reached")
			finish()
			return
		}
		mc1.SendEOF()
		var cerr error
		rc := make(chan struct{})
		go func() { cerr = <-reconnected; close(rc) }()
		if !waitCh(rc) {
			c.R.Inconcl(fmt.Sprintf("%s: the DISCONNECTED handler's Connect did not return", Case("linger", idx)))
			finish()
			return
		}
		if cerr != nil {
			viol("reconnect-failed", "Connect from inside the DISCONNECTED handler failed: "+cerr.Error())
			finish()
			s.Release()
			continue
		}
		mc2 := s.EP.Last()
		if mc2 == mc1 || !AwaitRegistration(mc2) {
			c.R.Inconcl("second registration not seen")
			finish()
			return
		}
		// the second session: welcomed under yet another nick, then renamed by the server
		want := "bov"
		mc2.SendLine(":srv 001 bov :Welcome")
		if idx%2 == 0 {
			mc2.SendLine(":bov!ident@host NICK :bow")
			want = "bow"
		}
		if !s.FgMarker(mc2) {
			c.R.Inconcl("second session's marker not reached")
			finish()
			return
		}
		c.R.Eval(1)
		c.R.Class(fmt.Sprintf("linger|%s|tracking=%v|end2=%s|renamed=%v", prop, tracking, end2, idx%2 == 0))
		if prop == "C17" {
			// let the old teardown finish completely, then ask
			finish()
			oldGone := func() bool {
				for _, g := range rig.LibGoros(rig.Census()) {
					if g.HasFrameContaining("(*Conn).close") {
						return false
					}
				}
				return true
			}
			if !waitUntilShort(oldGone, WaitLong) {
				c.R.Inconcl(fmt.Sprintf("%s: the previous connection's teardown did not finish after its handler returned", Case("linger", idx)))
				return
			}
			if !s.FgMarker(mc2) {
				c.R.Inconcl("marker after the old teardown not reached")
				return
			}
			cfgNick := ""
			if m := conn.Config().Me; m != nil {
				cfgNick = m.Nick
			}
			meNick := ""
			if m := conn.Me(); m != nil {
				meNick = m.Nick
			}
			if cfgNick != want {
				viol("config-me-nick-wrong", fmt.Sprintf("after the previous connection's teardown had finished (its DISCONNECTED handler reconnected and returned late), Config().Me.Nick is %q; the server uses %q on the connection that is up", cfgNick, want))
			}
			if meNick != want {
				viol("me-nick-wrong", fmt.Sprintf("after the previous connection's teardown had finished, Me().Nick is %q; the server uses %q", meNick, want))
			}
			CloseWatched(conn)
			s.Release()
			if c.R.NumViolations() > 6 {
				return
			}
			continue
		}
		// C06: the second connection ends while the first handler is still busy
		switch end2 {
		case "eof":
			mc2.SendEOF()
		case "readerr":
			mc2.SendErr(nil)
		case "close":
			go conn.Close()
		case "cancel":
			cancel2()
		}
		if !waitCh(chanOf2(second)) {
			ds := rig.ProveDead(WaitShort)
			if ds.Dead {
				viol("disconnected-never|"+ds.Signature, "the second connection ended while the DISCONNECTED handler that had made it was still busy: its own DISCONNECTED was never delivered, Connected() = "+fmt.Sprint(conn.Connected())+" (dead state "+ds.Signature+")")
			} else {
				c.R.Inconcl(fmt.Sprintf("%s: second DISCONNECTED not delivered (%s)", Case("linger", idx), ds.Reason))
			}
			finish()
			go conn.Close()
			s.Release()
			if c.R.NumViolations() > 6 {
				return
			}
			continue
		}
		if conn.Connected() {
			viol("connected-true-after-disconnected", "Connected() is true after the second connection's DISCONNECTED")
		}
		finish()
		if _, ok := rig.WaitNoLib(WaitShort, 400); !ok {
			c.R.Inconcl(fmt.Sprintf("%s: the library is not quiet after both connections ended", Case("linger", idx)))
			return
		}
		if d, g := atomic.LoadInt64(&nDisc), atomic.LoadInt64(&nReg); d != 2 || g != 2 {
			viol("event-count", fmt.Sprintf("two connections: %d REGISTER and %d DISCONNECTED events", g, d))
		}
		s.Release()
		if c.R.NumViolations() > 6 {
			return
		}
	}
}
