package props

import (
	"fmt"
	"reflect"
	"sort"
	"strings"

	"github.com/fluffle/goirc/state"
)

// Reflection helpers for the aliasing half of C14: the values the tracker returns are copied, compared and
// scribbled over by walking them, so that a field the library grows later (a slice inside a mode struct, a nested
// pointer) is covered without the harness naming it - and without the harness failing to compile against it.

// reflCopy returns a deep copy of v (pointers, structs, slices, maps, arrays; unexported fields are copied
// shallowly with the struct).
func reflCopy(v reflect.Value) reflect.Value {
	switch v.Kind() {
	case reflect.Ptr:
		if v.IsNil() {
			return v
		}
		n := reflect.New(v.Type().Elem())
		n.Elem().Set(reflCopy(v.Elem()))
		return n
	case reflect.Struct:
		n := reflect.New(v.Type()).Elem()
		n.Set(v)
		for i := 0; i < v.NumField(); i++ {
			if n.Field(i).CanSet() {
				n.Field(i).Set(reflCopy(v.Field(i)))
			}
		}
		return n
	case reflect.Slice:
		if v.IsNil() {
			return v
		}
		n := reflect.MakeSlice(v.Type(), v.Len(), v.Len())
		for i := 0; i < v.Len(); i++ {
			n.Index(i).Set(reflCopy(v.Index(i)))
		}
		return n
	case reflect.Array:
		n := reflect.New(v.Type()).Elem()
		for i := 0; i < v.Len(); i++ {
			n.Index(i).Set(reflCopy(v.Index(i)))
		}
		return n
	case reflect.Map:
		if v.IsNil() {
			return v
		}
		n := reflect.MakeMapWithSize(v.Type(), v.Len())
		it := v.MapRange()
		for it.Next() {
			n.SetMapIndex(it.Key(), reflCopy(it.Value()))
		}
		return n
	case reflect.Interface:
		if v.IsNil() {
			return v
		}
		n := reflect.New(v.Type()).Elem()
		n.Set(reflCopy(v.Elem()))
		return n
	}
	return v
}

var privMapType = reflect.TypeOf(map[string]*state.ChanPrivs(nil))

// reflScribble changes every settable leaf reachable from v: booleans are flipped, numbers moved, strings extended,
// slice elements scribbled (and the spare capacity behind the length written to), maps of privileges handled by
// scribbleMap (entries flipped, deleted, overwritten, inserted), other maps get their values replaced.
func reflScribble(v reflect.Value, depth int) {
	if depth > 8 {
		return
	}
	switch v.Kind() {
	case reflect.Ptr, reflect.Interface:
		if !v.IsNil() {
			reflScribble(v.Elem(), depth+1)
		}
	case reflect.Struct:
		for i := 0; i < v.NumField(); i++ {
			if v.Field(i).CanSet() {
				reflScribble(v.Field(i), depth+1)
			}
		}
	case reflect.Bool:
		if v.CanSet() {
			v.SetBool(!v.Bool())
		}
	case reflect.Int, reflect.Int8, reflect.Int16, reflect.Int32, reflect.Int64:
		if v.CanSet() {
			v.SetInt(v.Int() + 7)
		}
	case reflect.Uint, reflect.Uint8, reflect.Uint16, reflect.Uint32, reflect.Uint64:
		if v.CanSet() {
			v.SetUint(v.Uint() + 7)
		}
	case reflect.String:
		if v.CanSet() {
			v.SetString(v.String() + "~scribbled")
		}
	case reflect.Slice:
		for i := 0; i < v.Len(); i++ {
			reflScribble(v.Index(i), depth+1)
		}
		if v.Cap() > v.Len() {
			full := v.Slice(0, v.Cap())
			for i := v.Len(); i < v.Cap(); i++ {
				reflScribble(full.Index(i), depth+1)
			}
		}
	case reflect.Array:
		for i := 0; i < v.Len(); i++ {
			reflScribble(v.Index(i), depth+1)
		}
	case reflect.Map:
		if v.IsNil() {
			return
		}
		if v.Type() == privMapType {
			scribbleMap(v.Interface().(map[string]*state.ChanPrivs))
			return
		}
		for _, k := range v.MapKeys() {
			e := v.MapIndex(k)
			if e.Kind() == reflect.Ptr || e.Kind() == reflect.Map || e.Kind() == reflect.Slice {
				reflScribble(e, depth+1)
				continue
			}
			n := reflect.New(e.Type()).Elem()
			n.Set(e)
			reflScribble(n, depth+1)
			v.SetMapIndex(k, n)
		}
	}
}

// reflPrint writes a canonical rendering of everything reachable from v (map entries in key order, pointers
// followed) - cheaper than copying and comparing when all that is wanted is "did anything change".
func reflPrint(b *strings.Builder, v reflect.Value, depth int) {
	if depth > 10 {
		return
	}
	switch v.Kind() {
	case reflect.Ptr, reflect.Interface:
		if v.IsNil() {
			b.WriteString("nil;")
			return
		}
		b.WriteByte('&')
		reflPrint(b, v.Elem(), depth+1)
	case reflect.Struct:
		b.WriteByte('{')
		for i := 0; i < v.NumField(); i++ {
			reflPrint(b, v.Field(i), depth+1)
		}
		b.WriteByte('}')
	case reflect.Slice, reflect.Array:
		b.WriteByte('[')
		for i := 0; i < v.Len(); i++ {
			reflPrint(b, v.Index(i), depth+1)
		}
		b.WriteByte(']')
	case reflect.Map:
		if v.IsNil() {
			b.WriteString("nilmap;")
			return
		}
		keys := v.MapKeys()
		sort.Slice(keys, func(i, j int) bool { return fmt.Sprint(keys[i]) < fmt.Sprint(keys[j]) })
		b.WriteString("map[")
		for _, k := range keys {
			fmt.Fprintf(b, "%v:", k)
			reflPrint(b, v.MapIndex(k), depth+1)
		}
		b.WriteByte(']')
	case reflect.String:
		fmt.Fprintf(b, "%q;", v.String())
	case reflect.Bool:
		if v.Bool() {
			b.WriteByte('T')
		} else {
			b.WriteByte('F')
		}
	case reflect.Int, reflect.Int8, reflect.Int16, reflect.Int32, reflect.Int64:
		fmt.Fprintf(b, "%d;", v.Int())
	case reflect.Uint, reflect.Uint8, reflect.Uint16, reflect.Uint32, reflect.Uint64:
		fmt.Fprintf(b, "%d;", v.Uint())
	default:
		if v.CanInterface() {
			fmt.Fprintf(b, "%v;", v.Interface())
		}
	}
}
