package props

import (
	"context"
	"fmt"
	"strconv"
	"strings"
	"sync"
	"sync/atomic"
	"time"

	"github.com/fluffle/goirc/client"

	"verif/harness/rig"
)

func init() {
	register(&Property{
		ID:    "C09",
		Yield: true,
		Rule: "1..32 concurrent senders (user goroutines plus parallel foreground and background handler invocations) each issue numbered lines 'S<sender> <counter> <payload>' (payload 0..480 bytes) through Raw and, for one line in six, through Privmsg / Notice / Topic / Quit " +
			"while the server end reads fast, one write per token, or in bursts; flood control off; connection stays up. After all senders returned and a trailing separator reached the wire, the transcript must contain " +
			"every issued line exactly once, byte for byte, nothing else, and each sender's counters in increasing order. A run is non-trivial when lines of >= 2 senders were interleaved on the wire and the output " +
			"A third of the runs start after refused second Connect / ConnectContext calls whose context is cancelled afterwards. A quarter of the runs share the process with a second client that sends up to 60000 lines of its own; both transcripts are judged. A quarter of the payloads are arbitrary bytes (NUL, latin-1, broken UTF-8); the server pauses for 60 ms a few times while senders wait on the full queue (sessions may run with a 30 ms Config.Timeout). queue was observed full (issued - written >= 33) at least once; distinct_nontrivial = distinct (senders bucket, sender kinds, server read mode, GOMAXPROCS, interleaved, queue-full) cells.",
		Assumptions: []string{"Raw blocks when the queue is full (documented by TestSendDeadlockOnFullBuffer); the harness never closes the connection while senders run"},
		RaceClaim: func(rep string) bool {
			// races inside the send path itself (commands.go Raw / connection.go send, write)
			return strings.Contains(rep, "client.(*Conn).write") || strings.Contains(rep, "client.(*Conn).send(")
		},
		Plan: func(tier string, seed int64) []Batch {
			var bs []Batch
			for _, p := range []int{1, 2, 4, 16} {
				bs = append(bs, Batch{Name: fmt.Sprintf("p%d", p), Args: map[string]string{"procs": fmt.Sprint(p)}, Race: true, Procs: p, Weight: min(p, 4)})
			}
			if tier == "thorough" {
				for i := 0; i < 8; i++ {
					bs = append(bs, Batch{Name: fmt.Sprintf("norace-%d", i), Args: map[string]string{"procs": "8", "salt": fmt.Sprint(i), "heavy": "1"}, Race: false, Procs: 8, Weight: 2})
				}
			}
			return bs
		},
		Run: runC09,
	})
}

func runC09(c *Ctx) {
	runs := c.Pick(40, 400)
	if c.Arg("heavy", "") == "1" {
		runs = 250
	}
	salt := c.Arg("salt", "")
	procs := c.Arg("procs", "?")
	for idx := 0; idx < runs; idx++ {
		if !c.Want("run", idx) {
			continue
		}
		r := rig.Rand(c.Seed, "C09", procs, salt, idx)
		nUser := []int{1, 2, 3, 8, 16, 32}[r.Intn(6)]
		nFg := r.Intn(4)
		nBg := r.Intn(3)
		events := 0
		if nFg+nBg > 0 {
			events = 1 + r.Intn(6)
		}
		perUser := []int{10, 50, 200, 1000}[r.Intn(4)]
		if c.Quick() && perUser*nUser > 6000 {
			perUser = 6000 / nUser
		}
		if c.Arg("heavy", "") == "1" {
			perUser *= 2
		}
		perInv := 5 + r.Intn(60)
		mode := []string{"fast", "token", "burst"}[r.Intn(3)]
		longLines := r.Intn(3) == 0
		nPings := []int{0, 5, 40}[r.Intn(3)]
		c.J.Log("CASE %s users=%d fg=%d bg=%d events=%d perUser=%d perInv=%d mode=%s", Case("run", idx), nUser, nFg, nBg, events, perUser, perInv, mode)

		s := NewSession(SessionOpts{Flood: true, Mutate: func(cfg *client.Config) {
			if idx%2 == 1 {
				cfg.Timeout = 0 // the dial timeout ("0 = wait indefinitely") must not matter for sending
			}
		}})
		mc, err := s.Connect()
		if err != nil {
			c.R.Inconcl("connect: " + err.Error())
			return
		}
		if !AwaitRegistration(mc) {
			c.R.Inconcl("registration not seen")
			return
		}
		mc.Take()
		if idx%3 == 1 {
			// connect attempts that are refused because the client is connected leave the connection as it is -
			// also when the context they were given ends afterwards
			ctx, cancel := context.WithCancel(context.Background())
			e2 := s.Conn.Connect()
			e1 := s.Conn.ConnectContext(ctx)
			cancel()
			if e1 == nil || e2 == nil {
				c.R.Inconcl(fmt.Sprintf("%s: a second Connect on a connected client was not refused", Case("run", idx)))
				return
			}
			c.R.Count("runs_after_refused_connects", 1)
		}

		// a quarter of the runs share the process with a second client that is sending too (a bouncer, a bot on several
		// networks): its traffic must leave this client's alone, and the other way round
		var other *Session
		var otherMC *rig.MemConn
		otherStop := make(chan struct{})
		otherDone := make(chan struct{})
		var otherN int64
		if idx%4 == 2 {
			other = NewSession(SessionOpts{Flood: true})
			omc, oerr := other.Connect()
			if oerr != nil || !AwaitRegistration(omc) {
				c.R.Inconcl("connect of the second client failed")
				return
			}
			omc.Take()
			otherMC = omc
			go func() {
				defer close(otherDone)
				rr := rig.Rand(c.Seed, "C09other", idx)
				for k := 0; ; k++ {
					select {
					case <-otherStop:
						return
					default:
					}
					other.Conn.Raw(fmt.Sprintf("OTHER %d %s", k, strings.Repeat("o", rr.Intn(300))))
					atomic.AddInt64(&otherN, 1)
					if k > 60000 {
						return
					}
				}
			}()
			c.R.Count("runs_next_to_a_second_sending_client", 1)
		} else {
			close(otherDone)
		}

		var mu sync.Mutex
		issued := map[string]string{}    // "sender counter" -> payload
		apiIssued := map[string]string{} // exact wire line of a call made through a command method -> "sender counter"
		var issuedN int64
		senderSeq := int64(0)
		payload := func(rr interface{ Intn(int) int }) string {
			n := []int{0, 1, 7, 60, 200, 480}[rr.Intn(6)]
			if longLines && rr.Intn(40) == 0 {
				n = 4090 + rr.Intn(3000) // longer than the client's 4096-byte write buffer
			}
			b := make([]byte, n)
			// printable ASCII, or - in a quarter of the lines - any byte but CR and LF (NUL, latin-1, broken UTF-8:
			// "byte for byte" does not depend on the bytes being text)
			any := rr.Intn(4) == 0
			for i := range b {
				x := byte(32 + rr.Intn(95))
				if any {
					x = byte(rr.Intn(256))
					if x == '\r' || x == '\n' {
						x = 0
					}
				}
				b[i] = x
			}
			if any && n > 0 && (b[0] == ' ' || b[0] == ':') {
				b[0] = 'b'
			}
			return string(b)
		}
		sendN := func(sender int64, n int, rr interface{ Intn(int) int }) {
			for k := 0; k < n; k++ {
				p := payload(rr)
				key := fmt.Sprintf("%d %d", sender, k)
				mu.Lock()
				issued[key] = p
				mu.Unlock()
				line := "S" + key
				if p != "" {
					line += " " + p
				}
				if len(p) <= 200 && rr.Intn(6) == 0 {
					// the same line through one of the command methods (they all end in the same queue)
					var wire string
					var call func()
					switch rr.Intn(4) {
					case 0:
						wire, call = "PRIVMSG #s :"+line, func() { s.Conn.Privmsg("#s", line) }
					case 1:
						wire, call = "NOTICE n :"+line, func() { s.Conn.Notice("n", line) }
					case 2:
						wire, call = "TOPIC #s :"+line, func() { s.Conn.Topic("#s", line) }
					default:
						wire, call = "QUIT :"+line, func() { s.Conn.Quit(line) }
					}
					mu.Lock()
					apiIssued[wire] = key
					mu.Unlock()
					call()
					atomic.AddInt64(&issuedN, 1)
					continue
				}
				s.Conn.Raw(line)
				atomic.AddInt64(&issuedN, 1)
			}
		}
		var wg sync.WaitGroup
		var invWG sync.WaitGroup
		mkHandler := func(kind string, h int) client.HandlerFunc {
			return func(_ *client.Conn, l *client.Line) {
				defer invWG.Done()
				id := atomic.AddInt64(&senderSeq, 1) + 1000
				sendN(id, perInv, rig.Rand(c.Seed, "C09h", idx, kind, h, l.Args[0]))
			}
		}
		for h := 0; h < nFg; h++ {
			s.Conn.HandleFunc("GO", mkHandler("fg", h))
		}
		for h := 0; h < nBg; h++ {
			s.Conn.HandleBG("GO", mkHandler("bg", h))
		}
		invWG.Add(events * (nFg + nBg))

		// server read mode
		stop := make(chan struct{})
		var ctl sync.WaitGroup
		var maxBacklog int64
		if mode != "fast" {
			mc.Stall(0)
			ctl.Add(1)
			go func() {
				defer ctl.Done()
				rr := rig.Rand(c.Seed, "C09ctl", idx)
				longStalls := 0
				for {
					select {
					case <-stop:
						mc.Resume()
						return
					default:
					}
					b := atomic.LoadInt64(&issuedN) - int64(mc.NumLines())
					if b > atomic.LoadInt64(&maxBacklog) {
						atomic.StoreInt64(&maxBacklog, b)
					}
					if mode == "token" {
						mc.Allow(1)
					} else {
						mc.Allow(1 + rr.Intn(80))
					}
					if b >= 33 && longStalls < 3 && rr.Intn(20) == 0 {
						// now and then the server pauses for longer than any timeout the client may have been
						// configured with, while senders wait for room in the full queue: waiting is all they may do
						longStalls++
						time.Sleep(60 * time.Millisecond)
					} else if rr.Intn(4) == 0 {
						time.Sleep(time.Duration(20+rr.Intn(200)) * time.Microsecond)
					} else {
						for g := 0; g < 3; g++ {
							runtimeGosched()
						}
					}
				}
			}()
		}
		for u := 0; u < nUser; u++ {
			wg.Add(1)
			go func(u int) {
				defer wg.Done()
				sendN(int64(u), perUser, rig.Rand(c.Seed, "C09u", idx, u))
			}(u)
		}
		for e := 0; e < events; e++ {
			mc.SendLine(fmt.Sprintf(":srv GO %d", e))
		}
		// server PINGs while everybody is sending: the PONGs are one more sender (the built-in handler)
		for k := 0; k < nPings; k++ {
			mc.SendLine(fmt.Sprintf("PING :p%d", k))
			if k%8 == 7 {
				time.Sleep(50 * time.Microsecond)
			}
		}

		done := make(chan struct{})
		go func() { wg.Wait(); invWG.Wait(); close(done) }()
		if !waitCh(done) {
			close(stop)
			ctl.Wait()
			ds := rig.ProveDead(WaitShort)
			if ds.Dead {
				c.R.Violate(rig.Violation{Sig: "c09|senders-stuck|" + ds.Signature, Detail: "senders never finished although the server kept reading: " + ds.Signature, Case: Case("run", idx), Witness: ds.Dump})
			} else {
				c.R.Inconcl(fmt.Sprintf("%s: senders did not finish (%s)", Case("run", idx), ds.Reason))
			}
			return
		}
		if nPings > 0 {
			// every PING has been processed once a marker sent after them has been handled
			if !s.FgMarker(mc) {
				c.R.Inconcl(fmt.Sprintf("%s: marker after the PINGs not reached", Case("run", idx)))
				close(stop)
				return
			}
		}
		s.Conn.Raw("VSYNC end")
		ok := mc.WaitLines(WaitLong, func(lines []string) bool { return len(lines) > 0 && lines[len(lines)-1] == "VSYNC end" })
		close(stop)
		ctl.Wait()
		if !ok {
			if ds := rig.ProveDead(WaitShort); ds.Dead && !mc.Closed() {
				c.R.Violate(rig.Violation{Sig: "c09|line-never-written", Detail: "the line \"VSYNC end\" handed to Raw on a connection that is up never reached the server (nothing can move any more: " + ds.Signature + ")", Case: Case("run", idx)})
				s.Release()
				if c.R.NumViolations() > 10 {
					return
				}
				continue
			}
			c.R.Inconcl(fmt.Sprintf("%s: final separator not seen", Case("run", idx)))
			return
		}
		close(otherStop)
		if other != nil {
			if !waitCh(otherDone) {
				c.R.Inconcl(fmt.Sprintf("%s: the second client's sender did not stop", Case("run", idx)))
				return
			}
			other.Conn.Raw("VSYNC other")
			if !otherMC.WaitLines(WaitLong, func(lines []string) bool { return len(lines) > 0 && lines[len(lines)-1] == "VSYNC other" }) {
				c.R.Violate(rig.Violation{Sig: "c09|second-client-lines-lost", Detail: "the second client of the process never got its last line onto its own wire", Case: Case("run", idx)})
			} else {
				ol, _ := otherMC.Take()
				want := 0
				for _, l := range ol[:len(ol)-1] {
					var k int
					if n, _ := fmt.Sscanf(l, "OTHER %d", &k); n != 1 || k != want || strings.Trim(strings.TrimPrefix(l, fmt.Sprintf("OTHER %d ", k)), "o") != "" {
						c.R.Violate(rig.Violation{Sig: "c09|second-client-foreign-line", Detail: fmt.Sprintf("the second client of the process sent OTHER 0..%d; its server received %q at position %d", atomic.LoadInt64(&otherN)-1, clipS(l), want), Case: Case("run", idx)})
						break
					}
					want++
				}
			}
			go other.Conn.Close()
			other.Release()
		}
		lines, _ := mc.Take()
		lines = lines[:len(lines)-1]
		c.R.Eval(1)
		c.R.Count("lines_issued", atomic.LoadInt64(&issuedN))
		c.R.Count("lines_on_wire", int64(len(lines)))

		seen := map[string]int{}
		last := map[string]int{}
		interleaved := false
		prevSender := ""
		switches := 0
		viol := func(kind, detail string) {
			c.R.Violate(rig.Violation{Sig: "c09|" + kind, Detail: fmt.Sprintf("users=%d fg=%d bg=%d mode=%s procs=%s: %s", nUser, nFg, nBg, mode, procs, detail), Case: Case("run", idx)})
		}
		bad := false
		lastPong := -1
		pongs := 0
		for _, l := range lines {
			if strings.HasPrefix(l, "PONG :p") {
				k, err := strconv.Atoi(strings.TrimPrefix(l, "PONG :p"))
				if err != nil || k != lastPong+1 {
					viol("pong-order", fmt.Sprintf("PONG %q after PONG #%d", clipS(l), lastPong))
					bad = true
					break
				}
				lastPong = k
				pongs++
				continue
			}
			if key, ok := apiIssued[l]; ok {
				l = "S" + key + " " + issued[key] // judged like the raw form from here on
				if issued[key] == "" {
					l = "S" + key
				}
			}
			if !strings.HasPrefix(l, "S") {
				viol("foreign-line", fmt.Sprintf("unexpected line on the wire %q", clipS(l)))
				bad = true
				break
			}
			f := strings.SplitN(l[1:], " ", 3)
			if len(f) < 2 {
				viol("corrupt-line", fmt.Sprintf("unparsable line %q", clipS(l)))
				bad = true
				break
			}
			key := f[0] + " " + f[1]
			p := ""
			if len(f) == 3 {
				p = f[2]
			}
			want, ok := issued[key]
			if !ok {
				viol("corrupt-line", fmt.Sprintf("line %q was never issued", clipS(l)))
				bad = true
				break
			}
			if want != p {
				viol("bytes-changed", fmt.Sprintf("line %s payload %q, issued %q", key, clipS(p), clipS(want)))
				bad = true
				break
			}
			seen[key]++
			ctr, _ := strconv.Atoi(f[1])
			if lv, ok := last[f[0]]; ok && ctr <= lv {
				viol("reordered", fmt.Sprintf("sender %s: counter %d after %d", f[0], ctr, lv))
				bad = true
				break
			}
			last[f[0]] = ctr
			if prevSender != "" && prevSender != f[0] {
				switches++
			}
			prevSender = f[0]
		}
		if !bad {
			for k := range issued {
				switch n := seen[k]; {
				case n == 0:
					viol("lost", fmt.Sprintf("issued line %q never reached the wire (%d issued, %d written)", k, len(issued), len(lines)))
					bad = true
				case n > 1:
					viol("duplicated", fmt.Sprintf("issued line %q written %d times", k, n))
					bad = true
				}
				if bad {
					break
				}
			}
		}
		if !bad && pongs != nPings {
			viol("pong-count", fmt.Sprintf("%d PONGs on the wire for %d PINGs", pongs, nPings))
		}
		nSenders := len(last)
		interleaved = switches > nSenders
		full := atomic.LoadInt64(&maxBacklog) >= 33
		kinds := ""
		if nUser > 0 {
			kinds += "u"
		}
		if nFg > 0 && events > 0 {
			kinds += "f"
		}
		if nBg > 0 && events > 0 {
			kinds += "b"
		}
		sb := "1"
		switch {
		case nSenders >= 17:
			sb = "17+"
		case nSenders >= 5:
			sb = "5-16"
		case nSenders >= 2:
			sb = "2-4"
		}
		if interleaved && (full || mode == "fast") {
			c.R.Class(fmt.Sprintf("senders%s|%s|%s|procs%s|interleaved|full=%v|long=%v|pings=%v", sb, kinds, mode, procs, full, longLines, nPings > 0))
		}
		if interleaved {
			c.R.Count("runs_interleaved", 1)
		}
		if full {
			c.R.Count("runs_queue_full", 1)
		}
		c.R.Max("max_backlog", atomic.LoadInt64(&maxBacklog))
		if idx%7 == 0 {
			c.R.Sample(map[string]interface{}{"users": nUser, "fg_handlers": nFg, "bg_handlers": nBg, "events": events, "per_user": perUser, "per_invocation": perInv,
				"server_mode": mode, "procs": procs, "lines": len(lines), "long_lines": longLines, "server_pings": nPings, "sender_switches_on_wire": switches, "max_backlog": atomic.LoadInt64(&maxBacklog)})
		}
		s.Conn.Close()
		s.Release()
	}
}
