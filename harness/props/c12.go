package props

import (
	"fmt"
	"strings"

	"github.com/fluffle/goirc/state"

	"verif/harness/model"
	"verif/harness/rig"
)

func init() {
	register(&Property{
		ID: "C12",
		Rule: "(a) closure: breadth-first search over canonical model states from the fresh tracker over the relational-skeleton universe (nick names {\"\", me, a, b}, channels {\"\", #x, #y}, privileges {none,+o}); " +
			"every new state is rebuilt on a fresh real tracker by replaying its path, every interface method is applied with every argument combination over the universe, and after every step the return value and " +
			"the full query sweep (Me, GetNick, GetChannel, IsOn over all names) are compared with the relational model; (b) PRNG sequences of 200..2000 operations over 8 nicks x 5 channels with all attributes " +
			"(NickInfo, NickModes, Topic, ChannelModes over a pool of mode strings). The snapshot returned by DelNick / DelChannel carries no memberships (the model's after the deletion). Mode strings include ban-list letters with masks (+b, -b, +bb, +be, +I). A formatting logger is installed (the tracker logs from inside its critical sections) and a call into the tracker that never returns is reported with a dead-state proof. distinct_nontrivial = distinct canonical model states visited in which a real tracker was compared; exhaustive only when the closure completed.",
		Assumptions: []string{
			"left open by the statement and therefore not judged: ChannelModes calls whose outcome depends on which argument a privilege change for a non-member or a key removal consumes (skipped, counted), " +
				"ReNick to the empty name (model follows the implementation), membership maps inside values returned by DelNick/DelChannel",
			"'left sharing no channel' = the nick's membership set became empty through the operation",
		},
		Plan: func(tier string, seed int64) []Batch {
			bs := splitBatches("closure", 13, false, 1, map[string]string{"mode": "closure"})
			n := 3
			if tier == "thorough" {
				n = 12
			}
			bs = append(bs, splitBatches("prng", n, false, 1, map[string]string{"mode": "prng"})...)
			return bs
		},
		Run: runC12,
	})
}

var (
	c12Nicks = []string{"", "me", "a", "b"}
	c12Chans = []string{"", "#x", "#y"}
)

// c12SkeletonOps enumerates every mutating call over the skeleton universe.
func c12SkeletonOps() []model.TOp {
	var ops []model.TOp
	for _, n := range c12Nicks {
		ops = append(ops, model.TOp{Kind: "NewNick", A: []string{n}}, model.TOp{Kind: "DelNick", A: []string{n}})
		for _, n2 := range c12Nicks {
			ops = append(ops, model.TOp{Kind: "ReNick", A: []string{n, n2}})
		}
	}
	for _, c := range c12Chans {
		ops = append(ops, model.TOp{Kind: "NewChannel", A: []string{c}}, model.TOp{Kind: "DelChannel", A: []string{c}})
		for _, n := range c12Nicks {
			ops = append(ops,
				model.TOp{Kind: "Associate", A: []string{c, n}},
				model.TOp{Kind: "Dissociate", A: []string{c, n}},
				model.TOp{Kind: "ChannelModes", A: []string{c, "+o", n}},
				model.TOp{Kind: "ChannelModes", A: []string{c, "-o", n}})
		}
	}
	ops = append(ops, model.TOp{Kind: "Wipe"})
	return ops
}

// c12Step applies op to both and compares; returns "" or the difference.
func c12Step(st state.Tracker, m *model.TModel, op model.TOp, nicks, chans []string) (diff string, skipped bool) {
	if op.Kind == "ChannelModes" && m.Unspecified(op.A[0], op.A[1], op.A[2:]) {
		return "", true
	}
	got := model.RunOnTracker(st, op)
	implNil := got.Nick == nil
	want := m.Apply(op, implNil)
	if !model.RetEq(op.Kind, got, want) {
		return fmt.Sprintf("%s returned %s, model %s", op, model.RetString(got), model.RetString(want)), false
	}
	if d := model.Sweep(st, m, nicks, chans); d != "" {
		return fmt.Sprintf("after %s: %s", op, d), false
	}
	return "", false
}

func opsString(path []model.TOp) string {
	var s []string
	for _, o := range path {
		s = append(s, o.String())
	}
	return strings.Join(s, "; ")
}

func runC12(c *Ctx) {
	// a logger that formats its arguments like any real one (the tracker logs from inside its critical sections), and
	// a watch that ends the worker with a proof when one of its own calls into the tracker never returns
	formatted := rig.InstallFormattingLogger()
	defer func() { c.R.Count("log_records_formatted", formatted()) }()
	c.WatchTrackerCalls("c12")
	switch c.Arg("mode", "") {
	case "closure":
		runC12Closure(c)
	case "prng":
		runC12Prng(c)
	}
}

type c12Node struct {
	parent int
	op     model.TOp
	depth  int
}

func runC12Closure(c *Ctx) {
	part, parts := c.ArgInt("part", 0), c.ArgInt("parts", 1)
	maxStates := 3_000_000
	ops := c12SkeletonOps()
	// phase 1: the reachable state graph of the model alone (deterministic, identical in every part)
	root := model.NewTModel("me")
	seen := map[string]int{root.Canon(): 0}
	nodes := []c12Node{{parent: -1}}
	models := []*model.TModel{root}
	closed := true
	for qi := 0; qi < len(nodes); qi++ {
		base := models[qi]
		baseCanon := base.Canon()
		for _, op := range ops {
			if op.Kind == "ChannelModes" && base.Unspecified(op.A[0], op.A[1], op.A[2:]) {
				continue
			}
			m := base.Clone()
			m.Apply(op, false)
			cn := m.Canon()
			if cn == baseCanon {
				continue
			}
			if _, ok := seen[cn]; !ok {
				if len(nodes) >= maxStates {
					closed = false
					continue
				}
				seen[cn] = len(nodes)
				nodes = append(nodes, c12Node{parent: qi, op: op, depth: nodes[qi].depth + 1})
				models = append(models, m)
			}
		}
	}
	pathOf := func(i int) []model.TOp {
		var rev []model.TOp
		for i > 0 {
			rev = append(rev, nodes[i].op)
			i = nodes[i].parent
		}
		for l, r := 0, len(rev)-1; l < r; l, r = l+1, r-1 {
			rev[l], rev[r] = rev[r], rev[l]
		}
		return rev
	}
	rebuild := func(i int) state.Tracker {
		st := state.NewTracker("me")
		for _, o := range pathOf(i) {
			model.RunOnTracker(st, o)
		}
		return st
	}
	// phase 2: this part's share of the states on the real tracker
	var transitions, skipped, visited int64
	maxd := 0
	for qi := range nodes {
		if qi%parts != part || !c.Want("closure", qi) {
			continue
		}
		visited++
		if nodes[qi].depth > maxd {
			maxd = nodes[qi].depth
		}
		base := models[qi]
		baseCanon := base.Canon()
		var st state.Tracker
		var m *model.TModel
		for _, op := range ops {
			if st == nil {
				st = rebuild(qi)
				m = base.Clone()
				if d := model.Sweep(st, m, c12Nicks, c12Chans); d != "" {
					c.R.Violate(rig.Violation{Sig: "c12|state-mismatch", Detail: fmt.Sprintf("after [%s]: %s", opsString(pathOf(qi)), d), Case: Case("closure", qi)})
					break
				}
			}
			diff, skip := c12Step(st, m, op, c12Nicks, c12Chans)
			if skip {
				skipped++
				continue
			}
			transitions++
			if diff != "" {
				c.R.Violate(rig.Violation{
					Sig:     "c12|" + op.Kind + "|" + diffKind(diff),
					Detail:  fmt.Sprintf("from the state reached by [%s]: %s", opsString(pathOf(qi)), diff),
					Case:    Case("closure", qi),
					Witness: map[string]interface{}{"path": opsString(pathOf(qi)), "op": op.String()},
				})
				st = nil
				continue
			}
			if m.Canon() != baseCanon {
				if _, ok := seen[m.Canon()]; !ok {
					// the implementation-following branch (ReNick to "") left the model's own graph
					c.R.Count("closure_states_outside_model_graph", 1)
				}
				st = nil // state changed: rebuild for the next op
			}
		}
		if c.R.NumViolations() > 20 {
			closed = false
			break
		}
		c.R.Classes[fmt.Sprintf("S%d", qi)] = 1
		if qi%9973 == 0 && qi > 0 {
			c.R.Sample(map[string]interface{}{"closure_state": baseCanon, "reached_by": opsString(pathOf(qi))})
		}
	}
	c.R.Eval(transitions)
	c.R.Count("closure_states_checked", visited)
	c.R.Count("closure_transitions", transitions)
	c.R.Count("closure_skipped_unspecified", skipped)
	c.R.Max("max_closure_states_total", int64(len(nodes)))
	c.R.Max("max_closure_depth", int64(maxd))
	c.R.Exhaustive[fmt.Sprintf("closure of the relational-skeleton universe (%d reachable model states, every interface call from each)", len(nodes))] = closed && c.Only == ""
}

func diffKind(d string) string {
	switch {
	case strings.Contains(d, " returned "):
		return "return"
	case strings.Contains(d, "Me()"):
		return "Me"
	case strings.Contains(d, "GetNick"):
		return "GetNick"
	case strings.Contains(d, "GetChannel"):
		return "GetChannel"
	case strings.Contains(d, "IsOn"):
		return "IsOn"
	}
	return "other"
}

var (
	c12BigNicks = []string{"me", "a", "b", "c", "d", "e", "f", "g", "", "A", "Me", "B"} // incl. names differing only in letter case
	c12BigChans = []string{"#1", "#2", "#3", "&4", "#5", "", "#A", "#a"}
	c12Modes    = []string{"+o", "-o", "+ov", "+v", "-v", "+q", "+a", "+h", "-h", "+k", "-k", "+l", "-l", "+kl", "+s-s", "o", "+Xy", "+ntsk", "+imnprstzZO", "-imnprstzZO", "+lk", "+o-o", "-qaohv", "+", "", "+b", "-b", "+bb", "+b-b", "+be", "+I"}
	c12NModes   = []string{"+i", "-i", "+Biowxz", "-Biowxz", "o", "+w-w", "+Q", ""}
	c12Texts    = []string{"", "t1", "another text"}
)

// c12RandOp draws an operation biased towards keeping the state populated.
func c12RandOp(r interface{ Intn(int) int }, m *model.TModel) model.TOp {
	pn := func() string { return c12BigNicks[r.Intn(len(c12BigNicks))] }
	pc := func() string { return c12BigChans[r.Intn(len(c12BigChans))] }
	pt := func() string { return c12Texts[r.Intn(len(c12Texts))] }
	existingNick := func() string {
		if len(m.Nicks) == 0 || r.Intn(5) == 0 {
			return pn()
		}
		ns := sortedNickSet(m)
		return ns[r.Intn(len(ns))]
	}
	existingChan := func() string {
		cs := sortedChanSet(m)
		if len(cs) == 0 || r.Intn(5) == 0 {
			return pc()
		}
		return cs[r.Intn(len(cs))]
	}
	switch r.Intn(24) {
	case 0, 1, 2:
		return model.TOp{Kind: "NewNick", A: []string{pn()}}
	case 3, 4:
		return model.TOp{Kind: "NewChannel", A: []string{pc()}}
	case 5, 6, 7, 8:
		c := existingChan()
		if r.Intn(3) == 0 {
			return model.TOp{Kind: "Associate", A: []string{c, m.Me}}
		}
		return model.TOp{Kind: "Associate", A: []string{c, existingNick()}}
	case 9, 10:
		return model.TOp{Kind: "Dissociate", A: []string{existingChan(), existingNick()}}
	case 11:
		return model.TOp{Kind: "ReNick", A: []string{existingNick(), pn()}}
	case 12:
		return model.TOp{Kind: "DelNick", A: []string{existingNick()}}
	case 13:
		if r.Intn(3) == 0 {
			return model.TOp{Kind: "DelChannel", A: []string{existingChan()}}
		}
		return model.TOp{Kind: "GetChannel", A: []string{existingChan()}}
	case 14:
		return model.TOp{Kind: "NickInfo", A: []string{existingNick(), pt(), pt(), pt()}}
	case 15:
		return model.TOp{Kind: "NickModes", A: []string{existingNick(), c12NModes[r.Intn(len(c12NModes))]}}
	case 16:
		return model.TOp{Kind: "Topic", A: []string{existingChan(), pt()}}
	case 17, 18, 19, 20:
		a := []string{existingChan(), c12Modes[r.Intn(len(c12Modes))]}
		for k := r.Intn(4); k > 0; k-- {
			switch r.Intn(3) {
			case 0:
				a = append(a, existingNick())
			case 1:
				a = append(a, []string{"key", "17", "x", "-3", "*!*@host", "a!*@*"}[r.Intn(6)])
			default:
				a = append(a, pn())
			}
		}
		return model.TOp{Kind: "ChannelModes", A: a}
	case 21:
		if r.Intn(12) == 0 {
			return model.TOp{Kind: "Wipe"}
		}
		return model.TOp{Kind: "Me"}
	case 22:
		return model.TOp{Kind: "IsOn", A: []string{existingChan(), existingNick()}}
	default:
		return model.TOp{Kind: "GetNick", A: []string{existingNick()}}
	}
}

func sortedNickSet(m *model.TModel) []string {
	out := make([]string, 0, len(m.Nicks))
	for n := range m.Nicks {
		out = append(out, n)
	}
	sortStrings(out)
	return out
}

func sortedChanSet(m *model.TModel) []string {
	out := make([]string, 0, len(m.Chans))
	for n := range m.Chans {
		out = append(out, n)
	}
	sortStrings(out)
	return out
}

func runC12Prng(c *Ctx) {
	part, parts := c.ArgInt("part", 0), c.ArgInt("parts", 1)
	total := c.Pick(1500, 100_000)
	per := total / parts
	states := map[string]bool{}
	var skipped int64
	for i := 0; i < per; i++ {
		idx := part*per + i
		if !c.Want("prng", idx) {
			continue
		}
		r := rig.Rand(c.Seed, "C12", "prng", idx)
		n := 200 + r.Intn(1801)
		st := state.NewTracker("me")
		m := model.NewTModel("me")
		var trace []model.TOp
		for k := 0; k < n; k++ {
			op := c12RandOp(r, m)
			trace = append(trace, op)
			diff, skip := c12Step(st, m, op, c12BigNicks, c12BigChans)
			if skip {
				skipped++
				trace = trace[:len(trace)-1]
				continue
			}
			c.R.Eval(1)
			if diff != "" {
				from := 0
				if len(trace) > 40 {
					from = len(trace) - 40
				}
				c.R.Violate(rig.Violation{
					Sig:     "c12|" + op.Kind + "|" + diffKind(diff),
					Detail:  fmt.Sprintf("sequence %d, step %d: %s (last ops: %s)", idx, k, diff, opsString(trace[from:])),
					Case:    Case("prng", idx),
					Witness: map[string]interface{}{"ops": opsString(trace)},
				})
				break
			}
			if len(states) < 400000 {
				states[m.Canon()] = true
			}
		}
		if idx%97 == 0 {
			from := 0
			if len(trace) > 12 {
				from = len(trace) - 12
			}
			c.R.Sample(map[string]interface{}{"prng_sequence_tail": opsString(trace[from:]), "length": len(trace), "final_state": m.Canon()})
		}
	}
	c.R.Count("prng_skipped_unspecified", skipped)
	c.R.Count("prng_distinct_states", int64(len(states)))
	k := 0
	for s := range states {
		if k >= 100000 {
			break
		}
		c.R.Classes["P"+fmt.Sprint(hashStr(s))] = 1
		k++
	}
}
