package props

import (
	"bytes"
	"fmt"
	"runtime"
	"sort"
	"strings"
	"sync"
	"time"

	"github.com/fluffle/goirc/client"

	"verif/harness/rig"
)

// apiMethod describes one exported command method: how to call it with a
// list of string arguments and which verb its lines must start with.
type apiMethod struct {
	Name   string
	Verb   string // "" for Raw
	Fixed  int    // number of fixed string arguments
	VarMax int    // max variadic string arguments tried (0 = not variadic)
	Call   func(c *client.Conn, a []string)
}

func vs(a []string) []interface{} {
	out := make([]interface{}, len(a))
	for i, s := range a {
		out[i] = s
	}
	return out
}

var apiMethods = []apiMethod{
	{"Raw", "", 1, 0, func(c *client.Conn, a []string) { c.Raw(a[0]) }},
	{"Pass", "PASS", 1, 0, func(c *client.Conn, a []string) { c.Pass(a[0]) }},
	{"Nick", "NICK", 1, 0, func(c *client.Conn, a []string) { c.Nick(a[0]) }},
	{"User", "USER", 2, 0, func(c *client.Conn, a []string) { c.User(a[0], a[1]) }},
	{"Join", "JOIN", 1, 2, func(c *client.Conn, a []string) { c.Join(a[0], a[1:]...) }},
	{"Part", "PART", 1, 2, func(c *client.Conn, a []string) { c.Part(a[0], a[1:]...) }},
	{"Kick", "KICK", 2, 2, func(c *client.Conn, a []string) { c.Kick(a[0], a[1], a[2:]...) }},
	{"Quit", "QUIT", 0, 2, func(c *client.Conn, a []string) { c.Quit(a...) }},
	{"Whois", "WHOIS", 1, 0, func(c *client.Conn, a []string) { c.Whois(a[0]) }},
	{"Who", "WHO", 1, 0, func(c *client.Conn, a []string) { c.Who(a[0]) }},
	{"Privmsg", "PRIVMSG", 2, 0, func(c *client.Conn, a []string) { c.Privmsg(a[0], a[1]) }},
	{"Privmsgln", "PRIVMSG", 1, 3, func(c *client.Conn, a []string) { c.Privmsgln(a[0], vs(a[1:])...) }},
	{"Privmsgf", "PRIVMSG", 2, 2, func(c *client.Conn, a []string) { c.Privmsgf(a[0], a[1], vs(a[2:])...) }},
	{"Notice", "NOTICE", 2, 0, func(c *client.Conn, a []string) { c.Notice(a[0], a[1]) }},
	{"Ctcp", "PRIVMSG", 2, 2, func(c *client.Conn, a []string) { c.Ctcp(a[0], a[1], a[2:]...) }},
	{"CtcpReply", "NOTICE", 2, 2, func(c *client.Conn, a []string) { c.CtcpReply(a[0], a[1], a[2:]...) }},
	{"Version", "PRIVMSG", 1, 0, func(c *client.Conn, a []string) { c.Version(a[0]) }},
	{"Action", "PRIVMSG", 2, 0, func(c *client.Conn, a []string) { c.Action(a[0], a[1]) }},
	{"Topic", "TOPIC", 1, 2, func(c *client.Conn, a []string) { c.Topic(a[0], a[1:]...) }},
	{"Mode", "MODE", 1, 3, func(c *client.Conn, a []string) { c.Mode(a[0], a[1:]...) }},
	{"Away", "AWAY", 0, 2, func(c *client.Conn, a []string) { c.Away(a...) }},
	{"Invite", "INVITE", 2, 0, func(c *client.Conn, a []string) { c.Invite(a[0], a[1]) }},
	{"Oper", "OPER", 2, 0, func(c *client.Conn, a []string) { c.Oper(a[0], a[1]) }},
	{"VHost", "VHOST", 2, 0, func(c *client.Conn, a []string) { c.VHost(a[0], a[1]) }},
	{"Ping", "PING", 1, 0, func(c *client.Conn, a []string) { c.Ping(a[0]) }},
	{"Pong", "PONG", 1, 0, func(c *client.Conn, a []string) { c.Pong(a[0]) }},
	{"Cap", "CAP", 1, 3, func(c *client.Conn, a []string) { c.Cap(a[0], a[1:]...) }},
	{"Authenticate", "AUTHENTICATE", 1, 0, func(c *client.Conn, a []string) { c.Authenticate(a[0]) }},
}

type hostileArg struct {
	s     string
	class string
}

var c08Hostile = []hostileArg{
	{"\r", "CR"}, {"\n", "LF"}, {"\r\n", "CRLF"}, {"\r\nQUIT :x", "CRLF-inject-start"}, {"abc\r\nQUIT :x", "CRLF-inject-mid"},
	{"abc\nQUIT :x", "LF-inject-mid"}, {"abc\rQUIT :x", "CR-inject-mid"}, {"abc\r", "CR-end"}, {"abc\n", "LF-end"}, {"abc\r\n", "CRLF-end"},
	{"\n\r", "LFCR"}, {"a\x00b", "NUL"}, {"\x01", "x01"}, {"", "empty"}, {strings.Repeat("L", 5000), "long5000"},
	{strings.Repeat("w ", 1200) + "\r\nQUIT", "long-words-then-CRLF"}, {":lead", "lead-colon"}, {" lead", "lead-space"},
	{"%s%d%!", "fmtverbs"}, {"%s\r\nQUIT", "fmt+CRLF"}, {strings.Repeat("x", 460) + "\nQUIT :y", "past-split-LF"},
	{strings.Repeat("x. ", 160) + "\rJOIN #z", "sentences-then-CR"},
	{strings.Repeat("\x80", 1000), "continuation-bytes-only"}, {strings.Repeat("\xa0", 700) + "\r\nQUIT :x", "latin1-padding-then-CRLF"},
	{"caf\xe9 \xff\xfe", "not-utf8"},
}

var c08Benign = []string{"#chan", "nick", "some text here", "word", "+o", "LS"}

func init() {
	register(&Property{
		ID: "C08",
		Rule: "every exported command method (28) is called over a live in-memory connection with every argument position (incl. variadic tails of 0..3) set to each hostile string " +
			"(CR/LF/CRLF at start, middle, end, CRLF+second command, NUL, \\x01, empty, 5000 bytes, leading ':'/space, format verbs) with the other positions benign, for every SplitLen in {-1,0,5,13,450}, " +
			"plus PRNG combinations with several hostile positions; the bytes between consecutive Raw(\"VSYNC n\") separators are attributed to call n and must be (CR/LF-free line CRLF)* with each line " +
			"starting with the method's verb followed by space or end (Raw: equal to the argument up to its first CR/LF). A concurrent mode lets 2..8 goroutines call non-splitting methods (incl. 6000-byte arguments) while the server sends PINGs and reads in bursts: the wire must hold exactly the expected whole lines. Ending mode: 2..32 calls queued behind a writer blocked in a stalled socket, the connection then ends (Close, EOF, read error) and only afterwards does the server read on: every whole line that reaches it is a whole line of a call that was made, at most the final one cut short. Pre-connect rounds: command methods with CR/LF called on a never-connected client, then Connect. Every 40th PRNG call is repeated with the same arguments and must write the same bytes again. Hostile strings include runs of UTF-8 continuation bytes, latin-1 padding and other bytes that are not UTF-8. distinct_nontrivial = distinct (method, position, hostile-class, SplitLen) cells whose arguments contained CR or LF or another hostile byte.",
		Assumptions: []string{"calls are issued from one goroutine so FIFO separators attribute bytes to calls", "flood control off (Flood=true) so that 10^5 lines can be written"},
		Plan: func(tier string, seed int64) []Batch {
			bs := []Batch{{Name: "enum", Args: map[string]string{"mode": "enum"}, Race: false, Procs: 2}}
			n := 6
			if tier == "thorough" {
				n = 12
			}
			bs = append(bs, splitBatches("prng", n, false, 2, map[string]string{"mode": "prng"})...)
			bs = append(bs, Batch{Name: "race", Args: map[string]string{"mode": "prng", "part": "97", "parts": "100", "count": "3000"}, Race: true, Procs: 4})
			for _, p := range []int{2, 8} {
				bs = append(bs, Batch{Name: fmt.Sprintf("conc-p%d", p), Args: map[string]string{"mode": "conc", "procs": fmt.Sprint(p)}, Race: true, Procs: p, Weight: min(p, 4)})
			}
			bs = append(bs, Batch{Name: "ending-p4", Args: map[string]string{"mode": "ending", "procs": "4"}, Race: true, Procs: 4, Weight: 2})
			return bs
		},
		Run: runC08,
	})
}

type c08Sess struct {
	s       *Session
	mc      *rig.MemConn
	n       int
	lastOut string // what the last call put on the wire (without the separator)
}

func c08Open(c *Ctx, splitLen int) *c08Sess {
	s := NewSession(SessionOpts{Flood: true, Mutate: func(cfg *client.Config) { cfg.SplitLen = splitLen }})
	mc, err := s.Connect()
	if err != nil {
		c.R.Inconcl("connect: " + err.Error())
		return nil
	}
	if !AwaitRegistration(mc) {
		c.R.Inconcl("registration not seen")
		return nil
	}
	mc.Take()
	return &c08Sess{s: s, mc: mc}
}

func (cs *c08Sess) close() {
	cs.s.Conn.Close()
	cs.s.Release()
}

// c08Call performs one call and judges the bytes it produced.
func c08Call(c *Ctx, cs *c08Sess, caseID string, m *apiMethod, args []string, class string, splitLen int) bool {
	c.J.Log("CASE %s %s %q", caseID, m.Name, args)
	cs.n++
	sep := fmt.Sprintf("VSYNC %d", cs.n)
	rig.CallTick()
	m.Call(cs.s.Conn, args)
	cs.s.Conn.Raw(sep)
	// (the separator is the last thing this goroutine issued: on a FIFO queue it is the last line. Should a line of the
	// call straggle in behind it, the transcript below does not end in the separator and is reported as such.)
	ok := cs.mc.WaitLines(WaitLong, func(lines []string) bool {
		for i := len(lines) - 1; i >= 0 && i >= len(lines)-300; i-- {
			if lines[i] == sep {
				return true
			}
		}
		return false
	})
	if !ok {
		c.R.Inconcl(fmt.Sprintf("%s: separator not seen after %s(%q)", caseID, m.Name, args))
		return false
	}
	_, raw := cs.mc.Take()
	c.R.Eval(1)
	sepBytes := []byte(sep + "\r\n")
	cs.lastOut = string(bytes.TrimSuffix(raw, sepBytes))
	if !bytes.HasSuffix(raw, sepBytes) {
		c.R.Violate(rig.Violation{Sig: "c08|separator-mangled", Detail: fmt.Sprintf("%s(%q): transcript %q does not end in the separator", m.Name, args, tail(raw, 200)), Case: caseID})
		return true
	}
	body := raw[:len(raw)-len(sepBytes)]
	viol := func(kind, detail string) {
		c.R.Violate(rig.Violation{
			Sig:     "c08|" + kind + "|" + m.Name,
			Detail:  fmt.Sprintf("%s(%q) SplitLen=%d: %s; bytes on the wire: %q", m.Name, clip(args), splitLen, detail, tail(body, 300)),
			Case:    caseID,
			Witness: map[string]interface{}{"method": m.Name, "args": clip(args), "splitlen": splitLen, "wire": string(tail(body, 2000))},
		})
	}
	nl := 0
	rest := body
	for len(rest) > 0 {
		i := bytes.Index(rest, []byte("\r\n"))
		if i < 0 {
			viol("unterminated", "bytes after the last CRLF")
			break
		}
		line := rest[:i]
		rest = rest[i+2:]
		nl++
		if bytes.ContainsAny(line, "\r\n") {
			viol("cr-or-lf-inside-line", fmt.Sprintf("line %q contains a bare CR or LF", tail(line, 120)))
			break
		}
		if m.Verb == "" {
			want := args[0]
			if j := strings.IndexAny(want, "\r\n"); j >= 0 {
				want = want[:j]
			}
			if string(line) != want || nl > 1 {
				viol("raw-not-prefix", fmt.Sprintf("Raw wrote %q, want exactly one line %q", tail(line, 120), want))
				break
			}
			continue
		}
		if !bytes.HasPrefix(line, []byte(m.Verb)) || (len(line) > len(m.Verb) && line[len(m.Verb)] != ' ') {
			viol("foreign-verb", fmt.Sprintf("line %q does not begin with %s", tail(line, 120), m.Verb))
			break
		}
	}
	c.R.Count("wire_lines", int64(nl))
	if class != "" {
		c.R.Class(class)
	}
	return true
}

func tail(b []byte, n int) []byte {
	if len(b) > n {
		return append([]byte("…"), b[len(b)-n:]...)
	}
	return b
}

func clip(a []string) []string {
	out := make([]string, len(a))
	for i, s := range a {
		if len(s) > 80 {
			s = s[:40] + fmt.Sprintf("…(%d bytes)…", len(s)) + s[len(s)-30:]
		}
		out[i] = s
	}
	return out
}

func runC08(c *Ctx) {
	splitLens := []int{-1, 0, 5, 13, 450}
	switch c.Arg("mode", "") {
	case "enum":
		idx := 0
		for _, sl := range splitLens {
			cs := c08Open(c, sl)
			if cs == nil {
				return
			}
			for mi := range apiMethods {
				m := &apiMethods[mi]
				for nvar := 0; nvar <= m.VarMax; nvar++ {
					n := m.Fixed + nvar
					for pos := 0; pos < n; pos++ {
						for _, h := range c08Hostile {
							if c.Want("enum", idx) {
								args := make([]string, n)
								for i := range args {
									args[i] = c08Benign[(i+mi)%len(c08Benign)]
								}
								args[pos] = h.s
								cls := fmt.Sprintf("%s|pos%d/%d|%s|sl%d", m.Name, pos, n, h.class, sl)
								if !c08Call(c, cs, Case("enum", idx), m, args, cls, sl) {
									cs.close()
									return
								}
								if idx%1777 == 0 {
									c.R.Sample(map[string]interface{}{"method": m.Name, "args": clip(args), "splitlen": sl})
								}
							}
							idx++
						}
					}
					if n == 0 && c.Want("enum", idx) {
						c08Call(c, cs, Case("enum", idx), m, nil, fmt.Sprintf("%s|noargs|sl%d", m.Name, sl), sl)
					}
					if n == 0 {
						idx++
					}
				}
			}
			cs.close()
		}
		c.R.Exhaustive["28 methods x every argument position x 22 hostile strings x 5 SplitLen values (others benign)"] = c.Only == ""
	case "conc":
		runC08Conc(c)
	case "ending":
		runC08Ending(c)
	case "prng":
		part, parts := c.ArgInt("part", 0), c.ArgInt("parts", 1)
		total := c.Pick(120_000, 2_000_000)
		per := c.ArgInt("count", total/parts)
		var cs *c08Sess
		curSL := -999
		for i := 0; i < per; i++ {
			idx := part*per + i
			if !c.Want("prng", idx) {
				continue
			}
			r := rig.Rand(c.Seed, "C08", "prng", idx)
			sl := splitLens[(idx/500)%len(splitLens)]
			if cs == nil || sl != curSL {
				if cs != nil {
					cs.close()
				}
				cs = c08Open(c, sl)
				if cs == nil {
					return
				}
				curSL = sl
			}
			m := &apiMethods[r.Intn(len(apiMethods))]
			n := m.Fixed
			if m.VarMax > 0 {
				n += r.Intn(m.VarMax + 1)
			}
			args := make([]string, n)
			hostile := 0
			for k := range args {
				if r.Intn(2) == 0 {
					h := c08Hostile[r.Intn(len(c08Hostile))]
					args[k] = h.s
					if r.Intn(3) == 0 {
						args[k] = c08Benign[r.Intn(len(c08Benign))] + h.s + c08Benign[r.Intn(len(c08Benign))]
					}
					hostile++
				} else {
					args[k] = c08Benign[r.Intn(len(c08Benign))]
				}
			}
			cls := ""
			if hostile >= 2 {
				cls = fmt.Sprintf("%s|multi-hostile%d/%d|sl%d", m.Name, hostile, n, sl)
			}
			if !c08Call(c, cs, Case("prng", idx), m, args, cls, sl) {
				break
			}
			if idx%40 == 7 {
				// the same call once more: a command method has no memory, it writes the same bytes again
				first := cs.lastOut
				if !c08Call(c, cs, Case("prng", idx), m, args, cls, sl) {
					break
				}
				if cs.lastOut != first {
					c.R.Violate(rig.Violation{Sig: "c08|repeated-call-differs|" + m.Name, Detail: fmt.Sprintf("%s(%q) wrote %q the first time and %q when called again with the same arguments", m.Name, clip(args), clipS(first), clipS(cs.lastOut)), Case: Case("prng", idx)})
				}
				c.R.Count("calls_repeated_with_the_same_arguments", 1)
			}
		}
		if cs != nil {
			cs.close()
		}
	}
}

// runC08Conc: several goroutines call command methods at once while server
// PINGs are answered by the built-in handler; every byte on the wire must
// belong to exactly one whole expected line.
// runC08Ending: the connection ends (Close, end of stream, read error) while the writer is blocked in the socket
// with whole lines still queued behind it, and only then does the server read what is left. Whatever reaches the
// server must still be whole lines of calls that were made - at most the very last one cut short by the closing
// socket - however the teardown treats the queue.
// c08PreConnect: command methods called on a client that has never been connected, then the first Connect. Whether such
// early lines are ever written is the library's choice; if they are, they are whole single commands of their method
// like any others.
func c08PreConnect(c *Ctx, idx int) {
	r := rig.Rand(c.Seed, "C08", "preconnect", idx)
	s := NewSession(SessionOpts{Flood: true})
	defer s.Release()
	allowed := map[string]bool{}
	n := 1 + r.Intn(5)
	for k := 0; k < n; k++ {
		tag := fmt.Sprintf("p%dk%d", idx, k)
		text := []string{tag + "\r\nOPER root hunter2", tag + "\nKICK #c victim", tag + "\rQUIT", tag}[r.Intn(4)]
		eff := text
		if i := strings.IndexAny(eff, "\r\n"); i >= 0 {
			eff = eff[:i]
		}
		switch r.Intn(3) {
		case 0:
			allowed["PRIVMSG #c :"+eff] = true
			go s.Conn.Privmsg("#c", text)
		case 1:
			allowed["TOPIC #c :"+eff] = true
			go s.Conn.Topic("#c", text)
		default:
			allowed["AWAY :"+eff] = true
			go s.Conn.Away(text)
		}
	}
	time.Sleep(time.Duration(100+r.Intn(900)) * time.Microsecond)
	mc, err := s.Connect()
	if err != nil {
		c.R.Inconcl("connect: " + err.Error())
		return
	}
	if !AwaitRegistration(mc) || !s.WireMarker(mc) {
		c.R.Inconcl(fmt.Sprintf("%s: registration / marker not seen", Case("preconnect", idx)))
		return
	}
	c.R.Eval(1)
	raw := mc.Transcript()
	for _, l := range mc.Lines() {
		switch {
		case strings.HasPrefix(l, "NICK "), strings.HasPrefix(l, "USER "), strings.HasPrefix(l, "PONG :sync-"), allowed[l]:
		default:
			c.R.Violate(rig.Violation{Sig: "c08|preconnect-foreign-line", Detail: fmt.Sprintf("line %q reached the server after calls made before the first Connect; it is not a whole line of any of them (allowed: %q)", clipS(l), keysOfBool(allowed)), Case: Case("preconnect", idx)})
			go s.Conn.Close()
			return
		}
	}
	if bytes.Count(raw, []byte("\n")) != bytes.Count(raw, []byte("\r\n")) || bytes.Count(raw, []byte("\r")) != bytes.Count(raw, []byte("\r\n")) {
		c.R.Violate(rig.Violation{Sig: "c08|preconnect-framing", Detail: "bare CR or LF on the wire after calls made before the first Connect", Case: Case("preconnect", idx)})
	}
	c.R.Count("preconnect_rounds", 1)
	go s.Conn.Close()
}

func keysOfBool(m map[string]bool) []string {
	var out []string
	for k := range m {
		out = append(out, k)
	}
	sort.Strings(out)
	return out
}

func runC08Ending(c *Ctx) {
	rounds := c.Pick(40, 600)
	procs := c.Arg("procs", "?")
	for idx := 0; idx < c.Pick(20, 200); idx++ {
		if c.Want("preconnect", idx) {
			c.J.Log("CASE %s", Case("preconnect", idx))
			c08PreConnect(c, idx)
		}
	}
	for idx := 0; idx < rounds; idx++ {
		if !c.Want("ending", idx) {
			continue
		}
		r := rig.Rand(c.Seed, "C08", "ending", procs, idx)
		cs := c08Open(c, 450)
		if cs == nil {
			return
		}
		nCalls := 2 + r.Intn(31) // they all fit: one in the writer's hands, the rest in the 32-line queue
		cause := []string{"close", "eof", "readerr"}[r.Intn(3)]
		c.J.Log("CASE %s calls=%d cause=%s", Case("ending", idx), nCalls, cause)
		expected := map[string]int{}
		var wants []string
		cs.mc.Stall(r.Intn(4)) // the server takes 0..3 more writes, then stops reading
		for k := 0; k < nCalls; k++ {
			tag := fmt.Sprintf("e%dk%d", idx, k)
			// texts that would be commands of their own if a line were ever cut open in the middle
			text := []string{"KICK #c victim :" + tag, tag, "QUIT :" + tag + " " + strings.Repeat("q", r.Intn(300)), "x\r\nJOIN #evil " + tag}[r.Intn(4)]
			eff := text
			if i := strings.IndexAny(eff, "\r\n"); i >= 0 {
				eff = eff[:i]
			}
			var want string
			switch r.Intn(4) {
			case 0:
				want = "PRIVMSG #c :" + eff
				cs.s.Conn.Privmsg("#c", text)
			case 1:
				want = "TOPIC #c :" + eff
				cs.s.Conn.Topic("#c", text)
			case 2:
				want = "AWAY :" + eff
				cs.s.Conn.Away(text)
			default:
				want = "NOTICE n :" + eff
				cs.s.Conn.Notice("n", text)
			}
			expected[want]++
			wants = append(wants, want)
		}
		// let the writer pick the first line up and block in the socket
		for k := 0; k < 20+r.Intn(200); k++ {
			runtime.Gosched()
		}
		disc := make(chan struct{}, 1)
		cs.s.Conn.HandleFunc(client.DISCONNECTED, func(_ *client.Conn, l *client.Line) { disc <- struct{}{} })
		switch cause {
		case "close":
			go cs.s.Conn.Close()
		case "eof":
			cs.mc.SendEOF()
		case "readerr":
			cs.mc.SendErr(nil)
		}
		if r.Intn(2) == 0 {
			time.Sleep(time.Duration(50+r.Intn(2000)) * time.Microsecond)
		} else {
			for k := 0; k < r.Intn(100); k++ {
				runtime.Gosched()
			}
		}
		cs.mc.Resume() // now the server reads whatever it is given, until the socket is gone
		if !waitCh(chanOf(disc)) {
			ds := rig.ProveDead(WaitShort)
			if !ds.Dead {
				c.R.Inconcl(fmt.Sprintf("%s: no DISCONNECTED (%s)", Case("ending", idx), ds.Reason))
				return
			}
			c.R.Count("rounds_abandoned_because_disconnect_never_completed", 1) // C07's business
			cs.s.Release()
			continue
		}
		raw := cs.mc.Transcript()
		c.R.Eval(1)
		c.R.Count("bytes_written_by_ending_connections", int64(len(raw)))
		rest := string(raw)
		whole := 0
		for {
			i := strings.Index(rest, "\r\n")
			if i < 0 {
				break
			}
			l := rest[:i]
			rest = rest[i+2:]
			if expected[l] == 0 {
				c.R.Violate(rig.Violation{Sig: "c08|ending-foreign-or-torn-line", Detail: fmt.Sprintf("line %q reached the server of a connection that ended (%s) with lines queued behind a blocked write; it is not a whole line of any call that was made (calls: %q)", clipS(l), cause, clip(wants)), Case: Case("ending", idx)})
				rest = ""
				break
			}
			expected[l]--
			whole++
		}
		if rest != "" {
			okPrefix := false
			for w, n := range expected {
				if n > 0 && strings.HasPrefix(w+"\r\n", rest) {
					okPrefix = true
				}
			}
			if !okPrefix {
				c.R.Violate(rig.Violation{Sig: "c08|ending-torn-tail", Detail: fmt.Sprintf("the last bytes %q written before the socket closed are not the beginning of any line still owed", clipS(rest)), Case: Case("ending", idx)})
			}
		}
		if whole > 0 {
			c.R.Class(fmt.Sprintf("ending|%s|whole=%d", cause, min(whole, 3)))
		}
		cs.s.Release()
		if c.R.NumViolations() > 10 {
			return
		}
	}
}

func runC08Conc(c *Ctx) {
	rounds := c.Pick(25, 300)
	procs := c.Arg("procs", "?")
	for idx := 0; idx < rounds; idx++ {
		if !c.Want("conc", idx) {
			continue
		}
		r := rig.Rand(c.Seed, "C08", "conc", procs, idx)
		cs := c08Open(c, 450)
		if cs == nil {
			return
		}
		ng := 2 + r.Intn(7)
		per := 30 + r.Intn(60)
		nPings := []int{0, 10, 60}[r.Intn(3)]
		c.J.Log("CASE %s goroutines=%d calls=%d pings=%d", Case("conc", idx), ng, per, nPings)
		expected := map[string]int{}
		type call struct{ f func(*client.Conn) }
		plans := make([][]call, ng)
		for g := 0; g < ng; g++ {
			rg := rig.Rand(c.Seed, "C08", "concg", procs, idx, g)
			for k := 0; k < per; k++ {
				tag := fmt.Sprintf("g%dk%d", g, k)
				text := tag
				if rg.Intn(15) == 0 {
					text = tag + " " + strings.Repeat("L", 4090+rg.Intn(2500)) // beyond the 4096-byte write buffer
				}
				var want string
				var f func(*client.Conn)
				short := tag + " short text"
				switch rg.Intn(11) {
				case 8:
					want, f = "PRIVMSG #c :"+short, func(cc *client.Conn) { cc.Privmsg("#c", short) }
				case 9:
					want, f = "NOTICE "+tag+" :"+short, func(cc *client.Conn) { cc.Notice(tag, short) }
				case 10:
					want, f = "PRIVMSG #c :\x01ACTION "+short+"\x01", func(cc *client.Conn) { cc.Action("#c", short) }
				case 0:
					want, f = "TOPIC #c :"+text, func(cc *client.Conn) { cc.Topic("#c", text) }
				case 1:
					want, f = "PART #c :"+text, func(cc *client.Conn) { cc.Part("#c", text) }
				case 2:
					want, f = "KICK #c n :"+text, func(cc *client.Conn) { cc.Kick("#c", "n", text) }
				case 3:
					want, f = "INVITE "+tag+" #c", func(cc *client.Conn) { cc.Invite(tag, "#c") }
				case 4:
					want, f = "PONG :"+text, func(cc *client.Conn) { cc.Pong(text) }
				case 5:
					want, f = "PING :"+text, func(cc *client.Conn) { cc.Ping(text) }
				case 6:
					want, f = "MODE #c +k "+tag, func(cc *client.Conn) { cc.Mode("#c", "+k", tag) }
				default:
					want, f = "AWAY :"+text, func(cc *client.Conn) { cc.Away(text) }
				}
				expected[want]++
				plans[g] = append(plans[g], call{f})
			}
		}
		for k := 0; k < nPings; k++ {
			expected[fmt.Sprintf("PONG :srvtok%d", k)]++
		}
		if r.Intn(2) == 0 {
			cs.mc.Stall(0)
		}
		done := make(chan struct{})
		go func() {
			var wg sync.WaitGroup
			for g := 0; g < ng; g++ {
				wg.Add(1)
				go func(g int) {
					defer wg.Done()
					for _, cl := range plans[g] {
						cl.f(cs.s.Conn)
					}
				}(g)
			}
			wg.Wait()
			close(done)
		}()
		for k := 0; k < nPings; k++ {
			cs.mc.SendLine(fmt.Sprintf("PING :srvtok%d", k))
		}
		for k := 0; k < 300; k++ {
			select {
			case <-done:
			default:
				cs.mc.Allow(1 + r.Intn(10))
				time.Sleep(time.Duration(20+r.Intn(200)) * time.Microsecond)
				continue
			}
			break
		}
		cs.mc.Resume()
		if !waitCh(done) || !cs.s.FgMarker(cs.mc) {
			ds := rig.ProveDead(WaitShort)
			if cs.mc.Closed() {
				c.R.Violate(rig.Violation{Sig: "c08|conc-connection-lost", Detail: "the client closed the connection while several goroutines were sending (a write must have failed or been corrupted)", Case: Case("conc", idx)})
			} else if ds.Dead {
				c.R.Violate(rig.Violation{Sig: "c08|conc-stuck|" + ds.Signature, Detail: "concurrent senders never finished: dead state " + ds.Signature, Case: Case("conc", idx)})
			} else {
				c.R.Inconcl(fmt.Sprintf("%s: concurrent senders did not finish (%s)", Case("conc", idx), ds.Reason))
			}
			return
		}
		cs.s.Conn.Raw("VSYNC conc")
		if !cs.mc.WaitLines(WaitLong, func(lines []string) bool { return len(lines) > 0 && lines[len(lines)-1] == "VSYNC conc" }) {
			if cs.mc.Closed() {
				c.R.Violate(rig.Violation{Sig: "c08|conc-connection-lost", Detail: "the client closed the connection while several goroutines were sending", Case: Case("conc", idx)})
			} else {
				c.R.Inconcl(fmt.Sprintf("%s: separator not seen", Case("conc", idx)))
			}
			return
		}
		lines, raw := cs.mc.Take()
		c.R.Eval(1)
		c.R.Count("concurrent_lines", int64(len(lines)))
		if !bytes.HasSuffix(raw, []byte("\r\n")) || bytes.Count(raw, []byte("\r\n")) != len(lines) || bytes.Count(raw, []byte("\n")) != len(lines) || bytes.Count(raw, []byte("\r")) != len(lines) {
			c.R.Violate(rig.Violation{Sig: "c08|conc-framing", Detail: "the byte stream is not a sequence of CRLF-terminated lines free of bare CR/LF", Case: Case("conc", idx)})
		}
		for _, l := range lines[:len(lines)-1] {
			if expected[l] == 0 {
				c.R.Violate(rig.Violation{Sig: "c08|conc-foreign-or-torn-line", Detail: fmt.Sprintf("line %q on the wire is not a whole line of any call that was made", clipS(l)), Case: Case("conc", idx)})
				break
			}
			expected[l]--
		}
		missing := 0
		for _, n := range expected {
			missing += n
		}
		if missing != 0 && c.R.NumViolations() == 0 {
			c.R.Violate(rig.Violation{Sig: "c08|conc-line-missing", Detail: fmt.Sprintf("%d expected lines never reached the wire whole", missing), Case: Case("conc", idx)})
		}
		c.R.Class(fmt.Sprintf("conc|g%d|pings=%v|procs=%s", min(ng, 5), nPings > 0, procs))
		cs.close()
		if c.R.NumViolations() > 10 {
			return
		}
	}
}
