package props

import (
	"context"
	"fmt"
	"strings"
	"sync"
	"sync/atomic"
	"time"

	"github.com/fluffle/goirc/client"

	"verif/harness/rig"
)

// lifeSc is one lifecycle scenario (C06 / C07).
type lifeSc struct {
	Tracking  bool
	PingMs    int    // 0 = no client pings, else PingFreq in ms
	CtxAware  bool   // dialer implements ContextDialer
	UseCtx    bool   // ConnectContext with a cancellable context
	Cycles    int    // connect/disconnect cycles
	Inbound   int    // unprocessed inbound lines pending at the time of the cause
	InSegs    string // "one" | "many"
	Outbound  int    // outgoing lines produced around the cause
	OutBy     string // "none" | "handler" | "users"
	Users     int
	Server    string   // "reading" | "stalled" | "burst"
	Handler   string   // "idle" | "gate" | "raw": state of a foreground handler when the cause fires
	GateLate  bool     // release the gate after the cause fired (else just before)
	Causes    []string // fired together: close, close3, close8, eof, readerr, writeerr, cancel
	Reconnect string   // "none" | "handler" | "other"
	Welcome   string   // "" | "same" | "diff"
	Second    string   // "" | "idle" | "busy": call Connect again while connected
	Pass      string
	Procs     string
	ConnectTo bool // use ConnectTo / ConnectToContext (which set Config.Server and Config.Pass) instead of Connect
	FloodOn   bool // flood protection on (cfg.Flood=false): lines get rate-limited, the sender sleeps inside write
	NoJoin    bool // tracked sessions normally join #life after the welcome; the JOIN handler calls Me(), which hides a nil Config().Me
}

func (sc lifeSc) String() string {
	return fmt.Sprintf("track=%v ping=%dms ctxdial=%v usectx=%v cycles=%d in=%d/%s out=%d/%s/%d server=%s handler=%s late=%v causes=%s reconnect=%s welcome=%q second=%q procs=%s nojoin=%v floodprotection=%v connectto=%v",
		sc.Tracking, sc.PingMs, sc.CtxAware, sc.UseCtx, sc.Cycles, sc.Inbound, sc.InSegs, sc.Outbound, sc.OutBy, sc.Users, sc.Server, sc.Handler, sc.GateLate,
		strings.Join(sc.Causes, "+"), sc.Reconnect, sc.Welcome, sc.Second, sc.Procs, sc.NoJoin, sc.FloodOn, sc.ConnectTo)
}

// lifeFinding is a judged observation tagged with the property it refutes.
type lifeFinding struct {
	Prop   string // "C06" | "C07"
	Kind   string
	Detail string
	Dump   string
}

type lifeOutcome struct {
	Findings     []lifeFinding
	Inconclusive string
	Fingerprint  string // (first closer, blocked set) at teardown, for coverage
	Nontrivial   bool   // >= 1 library goroutine was blocked on a full queue or a gate at teardown
	Connections  int
	Events       int
}

// closerOf classifies which goroutine performed the teardown from the
// capturing logger's call-site record of "irc.Close(): Disconnected".
func closerOf(outer string) string {
	switch {
	case strings.Contains(outer, ".recv"):
		return "recv"
	case strings.Contains(outer, ".send"):
		return "send"
	case strings.Contains(outer, ".runLoop"):
		return "runLoop"
	case strings.Contains(outer, "postConnect"):
		return "ctxwatch"
	case strings.Contains(outer, ".Close"), strings.Contains(outer, ".close"):
		return "caller"
	}
	return "other:" + outer
}

// lifeLogger is the process-wide capturing logger of the lifecycle workers; its OnRec hook is the delay-injection
// point inside the library (records are emitted in recv's and send's loops, before every error-triggered close,
// inside Close's critical section and in the handlers).
var lifeLogger *rig.CapLogger

// runLife executes one scenario and judges it.
func runLife(c *Ctx, sc lifeSc, seedLabel ...interface{}) (out lifeOutcome) {
	r := rig.Rand(append([]interface{}{c.Seed, "life"}, seedLabel...)...)
	if lifeLogger != nil {
		// PRNG-chosen Gosched storms / short sleeps at the library's own log sites (half of the scenarios)
		var dmu sync.Mutex
		dr := rig.Rand(append([]interface{}{c.Seed, "life-delay"}, seedLabel...)...)
		inject := dr.Intn(2) == 0
		lifeLogger.SetHook(func(rec *rig.LogRecord) {
			if !inject {
				return
			}
			dmu.Lock()
			a, b := dr.Intn(8), dr.Intn(40)
			k := 1 + dr.Intn(30)
			d := time.Duration(20+dr.Intn(180)) * time.Microsecond
			dmu.Unlock()
			if a == 0 {
				for i := 0; i < k; i++ {
					runtimeGosched()
				}
			}
			if b == 0 {
				time.Sleep(d)
			}
		})
		defer lifeLogger.SetHook(nil)
	}
	lg := rig.NewLog()
	add := func(prop, kind, detail string) {
		out.Findings = append(out.Findings, lifeFinding{Prop: prop, Kind: kind, Detail: detail})
	}

	var cancel context.CancelFunc

	s := NewSession(SessionOpts{Tracking: sc.Tracking, CtxAware: sc.CtxAware, Flood: !sc.FloodOn, PingFreq: time.Duration(sc.PingMs) * time.Millisecond, Log: lg,
		Mutate: func(cfg *client.Config) { cfg.Pass = sc.Pass }})
	defer s.Release()
	conn := s.Conn

	// ---- handlers ----
	var connIdx int64  // number of successful connects so far (harness view)
	var sawError int32 // a server sent an ERROR line before hanging up
	sample := func(kind string) {
		v := "false"
		if conn.Connected() {
			v = "true"
		}
		lg.Add(rig.Event{Kind: kind, Conn: int(atomic.LoadInt64(&connIdx)), S: v})
	}
	conn.HandleFunc(client.REGISTER, func(_ *client.Conn, l *client.Line) {
		sample("REG-E")
		lg.Add(rig.Event{Kind: "REG-X"})
	})
	conn.HandleFunc(client.CONNECTED, func(_ *client.Conn, l *client.Line) { sample("CON-E") })
	discCh := make(chan int, 64)
	var cyclesLeft int64 = int64(sc.Cycles) - 1
	connectErrs := make(chan error, 64)
	doConnect := func(where string) error {
		lg.Add(rig.Event{Kind: "CONNECT-CALL", S: where})
		var err error
		var cf context.CancelFunc
		switch {
		case sc.UseCtx && sc.ConnectTo:
			var cx context.Context
			cx, cf = context.WithCancel(context.Background())
			err = conn.ConnectToContext(cx, "irc.test", sc.Pass)
		case sc.UseCtx:
			var cx context.Context
			cx, cf = context.WithCancel(context.Background())
			err = conn.ConnectContext(cx)
		case sc.ConnectTo && sc.Pass != "":
			err = conn.ConnectTo("irc.test", sc.Pass)
		case sc.ConnectTo:
			err = conn.ConnectTo("irc.test")
		default:
			err = conn.Connect()
		}
		e := ""
		if err != nil {
			e = err.Error()
			if cf != nil {
				cf()
			}
		} else {
			atomic.AddInt64(&connIdx, 1)
			cancel = cf // the context of the connection that is now up
		}
		lg.Add(rig.Event{Kind: "CONNECT-RET", S: e})
		return err
	}
	conn.HandleFunc(client.DISCONNECTED, func(_ *client.Conn, l *client.Line) {
		sample("DIS-E")
		if sc.Reconnect == "handler" && atomic.AddInt64(&cyclesLeft, -1) >= 0 {
			connectErrs <- doConnect("handler")
		}
		lg.Add(rig.Event{Kind: "DIS-X"})
		discCh <- 1
	})
	gate := make(chan struct{})
	blkEntered := make(chan struct{}, 8)
	conn.HandleFunc("BLK", func(_ *client.Conn, l *client.Line) {
		g := gate
		blkEntered <- struct{}{}
		<-g
	})
	var outIssued int64
	outDone := make(chan struct{}, 8)
	conn.HandleFunc("OUT", func(cc *client.Conn, l *client.Line) {
		for k := 0; k < sc.Outbound; k++ {
			cc.Raw(fmt.Sprintf("OUTLINE %d", k))
			atomic.AddInt64(&outIssued, 1)
		}
		outDone <- struct{}{}
	})
	var numSeen int64
	conn.HandleFunc("NUM", func(_ *client.Conn, l *client.Line) { atomic.AddInt64(&numSeen, 1) })

	// Close on a client that never connected does nothing.
	if err := conn.Close(); err != nil || lg.Len() != 0 {
		add("C06", "close-unconnected", fmt.Sprintf("Close on a never-connected client returned %v and logged %d events", err, lg.Len()))
	}

	// leftovers of an earlier scenario in this process: either still on their way out, or the
	// permanently stuck goroutines of a teardown that was already reported — ignored from here on
	var garbage map[int64]bool
	if len(rig.LibGoros(rig.Census())) != 0 {
		rig.WaitNoLib(WaitShort, 40)
		garbage = rig.LibGoroIDs()
	}

	// connect calls made by the harness's own goroutine are watched: one that never returns is judged like any
	// other stuck state (dead-state proof, keep-alive tickers tolerated while no write fault is armed)
	tolerant := func() rig.DeadOpt {
		if mc := s.EP.Last(); mc != nil {
			return rig.DeadOpt{TolerantPing: !mc.WriteFaultArmed()}
		}
		return rig.DeadOpt{TolerantPing: true}
	}
	connectStuck := func(where string) {
		ds := rig.ProveDeadOpt(WaitShort, tolerant())
		for try := 0; try < 40 && !ds.Dead && strings.HasPrefix(ds.Reason, "census changed"); try++ {
			ds = rig.ProveDeadOpt(WaitShort, tolerant())
		}
		if ds.Dead {
			for _, p := range []string{"C06", "C07"} {
				add(p, "connect-never-returns|"+ds.Signature, fmt.Sprintf("Connect (%s) never returns; proven dead state: %s", where, ds.Signature))
				out.Findings[len(out.Findings)-1].Dump = ds.Dump
			}
		} else {
			out.Inconclusive = fmt.Sprintf("Connect (%s) did not return within the watchdog and the state is not provably dead (%s)", where, ds.Reason)
		}
		out.Events = lg.Len()
	}
	watchedConnect := func(where string) (error, bool) {
		var err error
		done := make(chan struct{})
		go func() { err = doConnect(where); close(done) }()
		if !waitChOpt(done, tolerant) {
			connectStuck(where)
			return nil, false
		}
		return err, true
	}
	awaitErr := func(ch chan error, where string) (error, bool) {
		var err error
		done := make(chan struct{})
		go func() { err = <-ch; close(done) }()
		if !waitChOpt(done, tolerant) {
			connectStuck(where)
			return nil, false
		}
		return err, true
	}

	if err, ok := watchedConnect("main"); !ok {
		return
	} else if err != nil {
		out.Inconclusive = "first connect failed: " + err.Error()
		return
	}

	var stuckUsers int
	var numAtDisc int64
	curNick := "me"
	for cycle := 0; cycle < sc.Cycles; cycle++ {
		last := cycle == sc.Cycles-1
		mc := s.EP.Last()
		out.Connections++
		// (c) registration on the new transport
		if !AwaitRegistration(mc) {
			ds := rig.ProveDead(WaitShort)
			if mc.Closed() {
				add("C07", "new-connection-torn-down", fmt.Sprintf("cycle %d: the fresh connection was closed by the client before it had registered (nothing had ended it)", cycle))
			} else if ds.Dead {
				var evs []string
				all := lg.Events()
				for _, e := range all[max(0, len(all)-14):] {
					evs = append(evs, fmt.Sprintf("%d:%s(%s)", e.Tick, e.Kind, e.S))
				}
				add("C07", "registration-never-sent|"+ds.Signature, fmt.Sprintf("cycle %d: no NICK/USER on the new connection; dead state %s; lines written on it: %q; dials so far: %d; connections: %d; Connected()=%v; last events: %v",
					cycle, ds.Signature, mc.Lines(), len(s.EP.Dials()), len(s.EP.Conns()), conn.Connected(), evs))
				out.Findings[len(out.Findings)-1].Dump = ds.Dump
			} else {
				out.Inconclusive = fmt.Sprintf("cycle %d: registration not seen (%s)", cycle, ds.Reason)
			}
			break
		}
		reg := mc.Lines()
		var want []string
		if sc.Pass != "" {
			want = append(want, "PASS "+sc.Pass)
		}
		// NB: the engine never calls conn.Me(): with tracking on that call rewrites Config().Me and
		// would repair (and so hide) a nil left behind by a handler. The current nick is tracked here.
		want = append(want, "NICK ", "USER ident 12 * :Real Name")
		wi := 0
		for _, l := range reg {
			if wi < len(want) && strings.HasPrefix(l, want[wi]) {
				wi++
			}
		}
		if wi != len(want) {
			add("C07", "registration-wrong", fmt.Sprintf("cycle %d: first lines on the new connection were %q, want prefixes %q in order", cycle, reg, want))
		}
		// tracker reset to just the client itself
		if sc.Tracking {
			st := conn.StateTracker()
			me := st.Me()
			bad := ""
			if me == nil {
				bad = "Me() is nil"
			} else if len(me.Channels) != 0 {
				bad = fmt.Sprintf("me is still on %d channels", len(me.Channels))
			} else if st.GetChannel("#life") != nil {
				bad = "channel #life of the previous connection is still tracked"
			} else if st.GetNick("other") != nil {
				bad = "nick 'other' of the previous connection is still tracked"
			}
			if bad != "" {
				add("C07", "tracker-not-reset", fmt.Sprintf("cycle %d: after connect %s", cycle, bad))
			}
		}
		if cfgMe := conn.Config().Me; cfgMe == nil {
			add("C07", "config-me-nil", fmt.Sprintf("cycle %d: Config().Me is nil after connect", cycle))
		}
		// welcome + some state
		if sc.Welcome != "" {
			n := curNick
			if sc.Welcome == "diff" {
				n = fmt.Sprintf("w%dx", cycle)
			}
			curNick = n
			mc.SendLine(fmt.Sprintf(":srv 001 %s :Welcome %s!ident@host", n, n))
		}
		if sc.Tracking && !sc.NoJoin {
			n := curNick
			mc.SendLine(fmt.Sprintf(":%s!ident@host JOIN #life", n))
			mc.SendLine(":srv 353 " + n + " = #life :@" + n + " +other")
		}
		// health of the fresh connection: two marker round trips
		healthy := true
		rounds := 2
		if sc.FloodOn {
			rounds = 1 // every PONG is charged 2 s against the flood penalty
		}
		for k := 0; k < rounds && healthy; k++ {
			if !s.WireMarker(mc) || !s.FgMarker(mc) {
				healthy = false
			}
		}
		if healthy && cycle > 0 {
			// a fresh connection carries nothing over from the previous one
			for _, l := range mc.Lines() {
				if strings.HasPrefix(l, "OUTLINE ") {
					add("C07", "stale-output-on-new-connection", fmt.Sprintf("cycle %d: line %q queued by a handler of the previous connection was written to the new server", cycle, l))
					break
				}
			}
			if n := atomic.LoadInt64(&numSeen); n != numAtDisc {
				add("C07", "stale-input-on-new-connection", fmt.Sprintf("cycle %d: %d lines received on the previous connection were dispatched after the reconnect", cycle, n-numAtDisc))
			}
		}
		if healthy && cycle > 0 && atomic.LoadInt32(&sawError) == 1 && s.Cfg.Timeout > 0 && s.Cfg.Timeout <= 50*time.Millisecond {
			// the previous connection was ended with an ERROR line: the new one is unaffected by whatever that
			// set in motion - also once the (here: short) Config.Timeout has passed since
			time.Sleep(s.Cfg.Timeout + 25*time.Millisecond)
			healthy = s.WireMarker(mc)
		}
		if !healthy || !conn.Connected() || mc.Closed() {
			ds := rig.ProveDead(WaitShort)
			switch {
			case mc.Closed() || !conn.Connected():
				add("C07", "new-connection-torn-down", fmt.Sprintf("cycle %d: the fresh connection went down although nothing had ended it (Connected()=%v, socket closed=%v)", cycle, conn.Connected(), mc.Closed()))
			case ds.Dead:
				add("C07", "new-connection-stuck|"+ds.Signature, fmt.Sprintf("cycle %d: marker round trip on the fresh connection never completed; dead state %s", cycle, ds.Signature))
				out.Findings[len(out.Findings)-1].Dump = ds.Dump
			default:
				out.Inconclusive = fmt.Sprintf("cycle %d: marker round trip failed (%s)", cycle, ds.Reason)
			}
			break
		}
		if sc.Tracking && sc.Welcome != "" {
			if cfgMe := conn.Config().Me; cfgMe == nil {
				add("C07", "config-me-nil", fmt.Sprintf("cycle %d: Config().Me is nil after the welcome", cycle))
			}
		}

		// a second Connect while connected must be refused and change nothing
		second := func(when string) {
			before := lg.Len()
			err := doConnect("second-" + when)
			evs := lg.Events()[before:]
			extra := 0
			for _, e := range evs {
				if e.Kind != "CONNECT-CALL" && e.Kind != "CONNECT-RET" {
					extra++
				}
			}
			if err == nil {
				add("C06", "second-connect-accepted", fmt.Sprintf("Connect on a connected client (%s) returned nil", when))
				return
			}
			if extra != 0 {
				add("C06", "refused-connect-fired-events", fmt.Sprintf("refused Connect (%s) was followed by %d lifecycle events", when, extra))
			}
		}
		if sc.Second == "idle" {
			second("idle")
			n0 := atomic.LoadInt64(&numSeen)
			mc.SendLine(":srv NUM 1")
			if !s.WireMarker(mc) || !s.FgMarker(mc) || !conn.Connected() || atomic.LoadInt64(&numSeen) != n0+1 {
				ds := rig.ProveDead(WaitShort)
				add("C06", "refused-connect-broke-connection", fmt.Sprintf("after a refused Connect the existing connection no longer works (Connected()=%v, socket closed=%v, numbered line delivered=%v, dead=%v %s)",
					conn.Connected(), mc.Closed(), atomic.LoadInt64(&numSeen) == n0+1, ds.Dead, ds.Signature))
				break
			}
		}

		// ---- traffic state at the time of the cause ----
		causeTick := lg.Tick()
		lg.Add(rig.Event{Kind: "CAUSE-PREP", Conn: cycle + 1})
		_ = causeTick
		if sc.Server != "reading" {
			mc.Stall(0)
		}
		var burstStop chan struct{}
		if sc.Server == "burst" {
			burstStop = make(chan struct{})
			go func(stop chan struct{}) {
				rr := rig.Rand("burst", sc.String(), cycle)
				// bounded: after ~0.5 s of bursts the server simply reads, so that this goroutine never stands
				// in the way of a dead-state proof
				for it := 0; it < 2000; it++ {
					select {
					case <-stop:
						return
					default:
					}
					mc.Allow(1 + rr.Intn(20))
					time.Sleep(time.Duration(50+rr.Intn(400)) * time.Microsecond)
				}
				mc.Resume()
			}(burstStop)
		}
		gate = make(chan struct{})
		gateOpen := false
		openGate := func() {
			if !gateOpen {
				gateOpen = true
				close(gate)
			}
		}
		blocked := false
		switch sc.Handler {
		case "gate":
			mc.SendLine(":srv BLK")
			if !waitCh(chanOf(blkEntered)) {
				out.Inconclusive = "gate handler never entered"
			}
			blocked = true
		case "raw":
			atomic.StoreInt64(&outIssued, 0)
			mc.SendLine(":srv OUT")
			need := int64(sc.Outbound)
			if sc.Server == "stalled" && need > 33 {
				need = 33
			}
			waitUntilShort(func() bool { return atomic.LoadInt64(&outIssued) >= need }, 2*time.Second)
			if sc.Server == "stalled" && sc.Outbound > 34 {
				blocked = true
			}
		}
		if out.Inconclusive != "" {
			openGate()
			break
		}
		if sc.OutBy == "handler" && sc.Handler != "raw" && sc.Outbound > 0 && sc.Handler != "gate" {
			atomic.StoreInt64(&outIssued, 0)
			mc.SendLine(":srv OUT")
		}
		if sc.Inbound > 0 {
			var b []byte
			for k := 0; k < sc.Inbound; k++ {
				b = append(b, fmt.Sprintf(":srv NUM %d\r\n", k)...)
			}
			if sc.InSegs == "one" {
				mc.SendBytes(b)
			} else {
				var cuts []int
				for q := 1 + r.Intn(20); q < len(b); q += 1 + r.Intn(60) {
					cuts = append(cuts, q)
				}
				mc.SendSegmented(b, cuts)
			}
		}
		if sc.OutBy == "users" && sc.Outbound > 0 {
			per := sc.Outbound / max(sc.Users, 1)
			for u := 0; u < max(sc.Users, 1); u++ {
				stuckUsers++
				go func(u int, cc *client.Conn, mcc *rig.MemConn) {
					for k := 0; k < per; k++ {
						if mcc.Closed() {
							return
						}
						cc.Raw(fmt.Sprintf("USERLINE %d %d", u, k))
					}
				}(u, conn, mc)
			}
		}
		if sc.Second == "busy" {
			second("busy")
		}
		// let the backlog build up: recv fills the input queue, senders fill the output queue
		for k := 0; k < 50; k++ {
			runtimeGosched()
		}
		if sc.Inbound > 40 || sc.Outbound > 40 {
			time.Sleep(300 * time.Microsecond)
		}
		if sc.Handler == "gate" && !sc.GateLate {
			openGate()
		}

		// census of the library goroutines just before the cause: what is blocked where
		pre := rig.LibGoros(rig.Census())
		var blockedSet []string
		for i := range pre {
			g := &pre[i]
			if garbage[g.ID] {
				continue
			}
			role := g.LibRole()
			switch {
			case g.HasFrame("(*Conn).Raw") && g.State == "chan send":
				blockedSet = append(blockedSet, role+":Raw")
			case role == "recv" && g.State == "chan send":
				blockedSet = append(blockedSet, "recv:in-full")
			case role == "send" && g.HasFrame("rig.(*MemConn).Write"):
				blockedSet = append(blockedSet, "send:socket")
			case role == "send" && g.AtTimerSite():
				blockedSet = append(blockedSet, "send:flood-sleep")
			case role == "handler" && g.HasFrameContaining("props.runLife.func") && g.State == "chan receive":
				blockedSet = append(blockedSet, "handler:gate")
			}
		}
		sortStrings(blockedSet)
		blockedSet = uniq(blockedSet)
		if len(blockedSet) > 0 {
			out.Nontrivial = true
		}

		// ---- fire the causes from one barrier ----
		causes := sc.Causes
		if last && len(causes) == 0 {
			causes = []string{"close"}
		}
		lg.Add(rig.Event{Kind: "CAUSE", Conn: cycle + 1, S: strings.Join(causes, "+")})
		barrier := make(chan struct{})
		var fired sync.WaitGroup
		closeRet := make(chan error, 16)
		nClose := 0
		for _, cause := range causes {
			switch cause {
			case "close", "close3", "close8":
				n := map[string]int{"close": 1, "close3": 3, "close8": 8}[cause]
				for k := 0; k < n; k++ {
					nClose++
					fired.Add(1)
					go func() {
						fired.Done()
						<-barrier
						lg.Add(rig.Event{Kind: "CLOSE-CALL"})
						err := conn.Close()
						e := ""
						if err != nil {
							e = err.Error()
						}
						lg.Add(rig.Event{Kind: "CLOSE-RET", S: e})
						closeRet <- err
					}()
				}
			case "eof":
				fired.Add(1)
				sayWhy := r.Intn(2) == 0
				go func() {
					fired.Done()
					<-barrier
					if sayWhy {
						// a server says why before it hangs up
						mc.SendLine("ERROR :Closing Link: me[host] (Ping timeout)")
						atomic.StoreInt32(&sawError, 1)
					}
					mc.SendEOF()
				}()
			case "readerr":
				fired.Add(1)
				go func() { fired.Done(); <-barrier; mc.SendErr(nil) }()
			case "writeerr":
				fired.Add(1)
				go func() {
					fired.Done()
					<-barrier
					mc.FailWrite(1, nil)
					mc.Allow(1)
					// make sure a write happens
					go func(cc *client.Conn, mcc *rig.MemConn) {
						if !mcc.Closed() {
							cc.Raw("TRIGGER write")
						}
					}(conn, mc)
				}()
			case "cancel":
				if cancel != nil {
					cf := cancel
					fired.Add(1)
					go func() { fired.Done(); <-barrier; cf() }()
				}
			}
		}
		fired.Wait()
		close(barrier)
		if sc.Server == "stalled" && onlyReadSide(causes) {
			// A peer that has closed (or broken) its end and never reads again is gone: the client's
			// blocked and future writes fail as they would with a reset TCP connection. Without this the
			// end of the stream is unobservable for a client whose event loop is blocked behind a send,
			// and no disconnect has begun.
			mc.ResetByPeer(nil)
		}
		if sc.Handler == "gate" && sc.GateLate {
			for k := 0; k < r.Intn(40); k++ {
				runtimeGosched()
			}
			if r.Intn(2) == 0 {
				time.Sleep(time.Duration(r.Intn(300)) * time.Microsecond)
			}
			openGate()
		}

		// ---- completion: DISCONNECTED delivered and every Close returned ----
		done := make(chan struct{})
		go func() {
			<-discCh
			for k := 0; k < nClose; k++ {
				<-closeRet
			}
			close(done)
		}()
		if !waitChOpt(done, func() rig.DeadOpt { return rig.DeadOpt{TolerantPing: !mc.WriteFaultArmed()} }) {
			openGate()
			ds := rig.ProveDeadOpt(WaitShort, rig.DeadOpt{TolerantPing: !mc.WriteFaultArmed()})
			for try := 0; try < 40 && !ds.Dead && strings.HasPrefix(ds.Reason, "census changed"); try++ {
				// a keep-alive tick fell between the two censuses: take them again
				ds = rig.ProveDeadOpt(WaitShort, rig.DeadOpt{TolerantPing: !mc.WriteFaultArmed()})
			}
			if ds.Dead {
				add("C07", "teardown-stuck|"+ds.Signature, fmt.Sprintf("cycle %d: disconnect never completed (Close returned / DISCONNECTED delivered); proven dead state: %s", cycle, ds.Signature))
				out.Findings[len(out.Findings)-1].Dump = ds.Dump
			} else {
				out.Inconclusive = fmt.Sprintf("cycle %d: disconnect did not complete within the watchdog and the state is not provably dead (%s)", cycle, ds.Reason)
			}
			if burstStop != nil {
				close(burstStop)
			}
			out.Fingerprint = fmt.Sprintf("stuck|%s", strings.Join(blockedSet, ","))
			out.Events = lg.Len()
			return
		}
		openGate()
		if burstStop != nil {
			close(burstStop)
		}
		numAtDisc = atomic.LoadInt64(&numSeen)
		if blocked {
			out.Nontrivial = true
		}
		out.Fingerprint = fmt.Sprintf("%s|%s", strings.Join(causes, "+"), strings.Join(blockedSet, ","))

		// next connection
		if !last {
			switch sc.Reconnect {
			case "handler":
				if err, ok := awaitErr(connectErrs, "handler"); !ok {
					return
				} else if err != nil {
					add("C07", "reconnect-failed", fmt.Sprintf("cycle %d: Connect from inside the DISCONNECTED handler failed: %v", cycle, err))
					out.Events = lg.Len()
					return
				}
			default:
				if err, ok := watchedConnect("other"); !ok {
					return
				} else if err != nil {
					add("C07", "reconnect-failed", fmt.Sprintf("cycle %d: Connect after DISCONNECTED failed: %v", cycle, err))
					out.Events = lg.Len()
					return
				}
			}
		}
	}
	if out.Inconclusive != "" {
		return
	}

	// ---- quiescence: no goroutine of any connection remains ----
	if conn.Connected() {
		// an early break above left a connection up: end it so that the process stays clean
		CloseWatched(conn)
	}
	if leak, ok := rig.WaitNoLibExcept(garbage, WaitShort, 600); !ok {
		if leak != nil {
			var desc []string
			for _, g := range leak {
				inner := ""
				for _, f := range g.Frames {
					if strings.HasPrefix(f, "github.com/fluffle/goirc/") {
						inner = strings.TrimPrefix(f, "github.com/fluffle/goirc/")
						break
					}
				}
				desc = append(desc, fmt.Sprintf("%s:%s[%s]", g.LibRole(), inner, g.State))
			}
			sortStrings(desc)
			add("C07", "goroutine-leak|"+strings.Join(uniq(desc), ","), fmt.Sprintf("after the last DISCONNECTED %d library goroutines remain blocked: %s", len(leak), strings.Join(desc, " ")))
			var sb strings.Builder
			for _, g := range leak {
				sb.WriteString(g.Raw + "\n\n")
			}
			out.Findings[len(out.Findings)-1].Dump = sb.String()
		} else {
			out.Inconclusive = "library goroutines were still changing state at the end of the scenario"
		}
	}
	// Close after the end does nothing
	before := lg.Len()
	if err := conn.Close(); err != nil || lg.Len() != before {
		add("C06", "close-unconnected", fmt.Sprintf("Close on a disconnected client returned %v and produced %d events", err, lg.Len()-before))
	}

	// ---- event-log oracle (C06) ----
	ev := lg.Events()
	out.Events = len(ev)
	nConnOK, nReg, nDis := 0, 0, 0
	regOpen := false
	var lastRegX int64
	for i, e := range ev {
		switch e.Kind {
		case "CONNECT-RET":
			if e.S == "" {
				nConnOK++
				// exactly one REGISTER between this connect's CALL and RET, finished before RET
				regs := 0
				for j := i - 1; j >= 0 && ev[j].Kind != "CONNECT-CALL"; j-- {
					if ev[j].Kind == "REG-X" {
						regs++
					}
				}
				if regs != 1 {
					add("C06", "register-count", fmt.Sprintf("successful Connect #%d dispatched REGISTER %d times before returning", nConnOK, regs))
				}
			}
		case "REG-E":
			nReg++
			regOpen = true
			// Connected() must be true unless a cause for this connection had been injected already
			if e.S != "true" {
				causeBefore := false
				for j := 0; j < i; j++ {
					if ev[j].Kind == "CAUSE-PREP" && ev[j].Conn >= nConnOK+1 {
						causeBefore = true
					}
				}
				if !causeBefore {
					add("C06", "connected-false-in-register", "Connected() was false inside a REGISTER handler although nothing had ended the connection")
				}
			}
		case "REG-X":
			regOpen = false
			lastRegX = e.Tick
		case "CON-E":
			if e.S != "true" {
				// judged only if no cause had been prepared for the current connection
				causeBefore := false
				for j := 0; j < i; j++ {
					if ev[j].Kind == "CAUSE-PREP" && ev[j].Conn == nConnOK {
						causeBefore = true
					}
				}
				if !causeBefore {
					add("C06", "connected-false-in-connected", "Connected() was false inside a CONNECTED handler although nothing had ended the connection")
				}
			}
		case "DIS-E":
			nDis++
			if e.S != "false" {
				add("C06", "connected-true-in-disconnected", fmt.Sprintf("Connected() was true at the entry of DISCONNECTED handler #%d (before anything reconnected)", nDis))
			}
		}
	}
	_ = regOpen
	_ = lastRegX
	if nReg != nConnOK {
		add("C06", "register-count", fmt.Sprintf("%d successful connects but %d REGISTER events", nConnOK, nReg))
	}
	if nDis != nConnOK {
		add("C06", "disconnected-count", fmt.Sprintf("%d established connections ended, DISCONNECTED fired %d times (causes per cycle: %s)", nConnOK, nDis, strings.Join(sc.Causes, "+")))
	}
	return
}

func onlyReadSide(causes []string) bool {
	for _, c := range causes {
		if c != "eof" && c != "readerr" {
			return false
		}
	}
	return len(causes) > 0
}

func chanOf(c chan struct{}) <-chan struct{} { return c }

func uniq(s []string) []string {
	var out []string
	for i, x := range s {
		if i == 0 || x != s[i-1] {
			out = append(out, x)
		}
	}
	return out
}

// waitUntilShort polls cond for at most d (no verdict attached).
func waitUntilShort(cond func() bool, d time.Duration) bool {
	dl := time.Now().Add(d)
	for !cond() {
		if time.Now().After(dl) {
			return false
		}
		runtimeGosched()
		time.Sleep(10 * time.Microsecond)
	}
	return true
}

// reportLife turns an outcome into result entries for property prop.
func reportLife(c *Ctx, prop, gen string, idx int, sc lifeSc, o lifeOutcome) {
	c.R.Eval(1)
	c.R.Count("connections", int64(o.Connections))
	c.R.Count("events", int64(o.Events))
	for _, f := range o.Findings {
		if prop == "C06" && f.Prop == "C07" && strings.HasPrefix(f.Kind, "teardown-stuck|") {
			// proven: this connection's DISCONNECTED can never fire any more — zero instead of exactly one
			f = lifeFinding{Prop: "C06", Kind: "disconnected-never|" + strings.TrimPrefix(f.Kind, "teardown-stuck|"),
				Detail: "an established connection ended but DISCONNECTED can never be delivered (proven dead state): " + f.Detail, Dump: f.Dump}
		}
		if f.Prop != prop {
			c.R.Count("findings_for_"+f.Prop+"_seen_in_"+prop+"_scenarios", 1)
			continue
		}
		w := map[string]interface{}{"scenario": sc.String()}
		if f.Dump != "" {
			w["dump"] = f.Dump
		}
		c.R.Violate(rig.Violation{Sig: strings.ToLower(prop) + "|" + f.Kind, Detail: f.Detail + " — scenario: " + sc.String(), Case: Case(gen, idx), Witness: w})
	}
	if o.Inconclusive != "" {
		c.R.Inconcl(fmt.Sprintf("%s: %s — scenario: %s", Case(gen, idx), o.Inconclusive, sc.String()))
	}
}
