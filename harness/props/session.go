package props

import (
	"context"
	"fmt"
	"runtime"
	"strconv"
	"strings"
	"sync"
	"sync/atomic"
	"time"

	"github.com/fluffle/goirc/client"

	"verif/harness/rig"
)

// WaitLong is the generous wall-clock watchdog used for every wait that is
// expected to complete in microseconds; its expiry is never a violation by
// itself (inconclusive, or the start of a dead-state proof).
var WaitLong = 30 * time.Second

// WaitShort is the interval between the two censuses of a dead-state proof.
var WaitShort = rig.DeadInterval

// Session is one client wired to an in-memory endpoint.
type Session struct {
	Log  *rig.Log
	EP   *rig.Endpoint
	Cfg  *client.Config
	Conn *client.Conn

	markSeq int64
	markCh  chan int64
	pingSeq int64

	mu sync.Mutex
}

// SessionOpts configures NewSession.
type SessionOpts struct {
	Nick     string
	Tracking bool
	CtxAware bool
	Flood    bool          // value for cfg.Flood (true = no flood control)
	PingFreq time.Duration // 0 = no client pings
	Mutate   func(cfg *client.Config)
	Log      *rig.Log
}

// NewSession builds a client (not yet connected). Flood control is off and
// client pings disabled unless asked for.
func NewSession(o SessionOpts) *Session {
	if o.Nick == "" {
		o.Nick = "me"
	}
	lg := o.Log
	if lg == nil {
		lg = rig.NewLog()
	}
	s := &Session{Log: lg, markCh: make(chan int64, 1024)}
	s.EP = rig.NewEndpoint(lg)
	cfg := client.NewConfig(o.Nick, "ident", "Real Name")
	cfg.Server = "irc.test"
	cfg.Proxy = s.EP.ProxyURL(o.CtxAware)
	cfg.Flood = o.Flood
	cfg.PingFreq = o.PingFreq
	// Config.Timeout only bounds the dial ("0 = wait indefinitely"); nothing any property states depends on it, so
	// it is drawn per session: the default (1m), 0, 5m and 30ms
	switch sessionRand().Intn(6) {
	case 0:
		cfg.Timeout = 0
	case 1:
		cfg.Timeout = 5 * time.Minute
	case 2:
		cfg.Timeout = 30 * time.Millisecond // (the in-memory dial takes no time)
	}
	if o.Mutate != nil {
		o.Mutate(cfg)
	}
	s.Cfg = cfg
	s.Conn = client.Client(cfg)
	if o.Tracking {
		s.Conn.EnableStateTracking()
	}
	s.Conn.HandleFunc("VMARK", func(c *client.Conn, l *client.Line) {
		if len(l.Args) > 0 {
			n, _ := strconv.ParseInt(l.Args[0], 10, 64)
			select {
			case s.markCh <- n:
			default:
			}
		}
	})
	return s
}

// Release unregisters the endpoint.
func (s *Session) Release() { s.EP.Release() }

// Connect connects and returns the server end.
func (s *Session) Connect() (*rig.MemConn, error) {
	if err := s.Conn.Connect(); err != nil {
		return nil, err
	}
	return s.EP.Last(), nil
}

// ConnectCtx connects with a context.
func (s *Session) ConnectCtx(ctx context.Context) (*rig.MemConn, error) {
	if err := s.Conn.ConnectContext(ctx); err != nil {
		return nil, err
	}
	return s.EP.Last(), nil
}

// FgMarker sends a harness-only line and waits until its foreground handler
// ran: every earlier line has then been through its internal and
// foreground handlers. Returns false if the watchdog fired or the
// connection was closed.
func (s *Session) FgMarker(mc *rig.MemConn) bool {
	n := atomic.AddInt64(&s.markSeq, 1)
	mc.SendLine(fmt.Sprintf(":srv VMARK %d", n))
	return s.AwaitMark(mc, n)
}

// SendMark only sends the marker and returns its number.
func (s *Session) SendMark(mc *rig.MemConn) int64 {
	n := atomic.AddInt64(&s.markSeq, 1)
	mc.SendLine(fmt.Sprintf(":srv VMARK %d", n))
	return n
}

// AwaitMark waits for marker n. The wait ends early (false) when the
// process is provably in a dead state.
func (s *Session) AwaitMark(mc *rig.MemConn, n int64) bool {
	wd := rig.NewWatchdog(WaitLong)
	for {
		t := time.NewTimer(rig.DeadPollEvery)
		select {
		case got := <-s.markCh:
			t.Stop()
			if got == n {
				return true
			}
		case <-mc.ClosedCh():
			t.Stop()
			// drain what may already be there
			for {
				select {
				case got := <-s.markCh:
					if got == n {
						return true
					}
				default:
					return false
				}
			}
		case <-t.C:
			if wd.Expired() || rig.ProveDead(rig.DeadInterval).Dead {
				// the marker may have arrived just before everything went quiet: look once more
				for {
					select {
					case got := <-s.markCh:
						if got == n {
							return true
						}
						continue
					default:
					}
					return false
				}
			}
		}
	}
}

// WireMarker sends PING :sync-n and waits for PONG :sync-n on the wire.
func (s *Session) WireMarker(mc *rig.MemConn) bool {
	n := atomic.AddInt64(&s.pingSeq, 1)
	tok := fmt.Sprintf("sync-%d", n)
	from := mc.NumLines()
	mc.SendLine("PING :" + tok)
	want := "PONG :" + tok
	return mc.WaitLineFrom(WaitLong, from, func(l string) bool { return l == want }) >= 0
}

// AwaitRegistration waits for the USER line of the registration burst.
func AwaitRegistration(mc *rig.MemConn) bool {
	return mc.WaitLineFrom(WaitLong, 0, func(l string) bool { return strings.HasPrefix(l, "USER ") }) >= 0
}

// waitCh waits for ch with the long watchdog.
func waitCh(ch <-chan struct{}) bool { return waitChOpt(ch, nil) }

// waitChOpt is waitCh with the dead-state proofs taken under the options opt() returns at that moment (e.g.
// tolerating keep-alive tickers while no write fault is armed); a census that a keep-alive tick disturbed is retaken.
func waitChOpt(ch <-chan struct{}, opt func() rig.DeadOpt) bool {
	prove := func() bool { return rig.ProveDead(rig.DeadInterval).Dead }
	if opt != nil {
		prove = func() bool {
			ds := rig.ProveDeadOpt(rig.DeadInterval, opt())
			for try := 0; try < 8 && !ds.Dead && strings.HasPrefix(ds.Reason, "census changed"); try++ {
				ds = rig.ProveDeadOpt(rig.DeadInterval, opt())
			}
			return ds.Dead
		}
	}
	wd := rig.NewWatchdog(WaitLong)
	for {
		t := time.NewTimer(rig.DeadPollEvery)
		select {
		case <-ch:
			t.Stop()
			return true
		case <-t.C:
			// a proven dead state ends the wait at once: nothing can ever wake it — unless what is awaited
			// happened just before everything went quiet (timer and channel both ready): look once more
			if wd.Expired() || prove() {
				select {
				case <-ch:
					return true
				default:
					return false
				}
			}
		}
	}
}

// CloseWatched calls Close on a goroutine of its own and waits for it with
// the long watchdog; false means Close has not returned.
func CloseWatched(conn *client.Conn) bool {
	done := make(chan struct{})
	go func() {
		conn.Close()
		close(done)
	}()
	return waitCh(done)
}

// waitUntil polls cond (cheaply at first) until it holds or the long watchdog expires.
func waitUntil(cond func() bool) bool {
	wd := rig.NewWatchdog(WaitLong)
	nextProof := time.Now().Add(rig.DeadPollEvery)
	for i := 0; ; i++ {
		if cond() {
			return true
		}
		if i%256 == 255 && wd.Expired() {
			return false
		}
		if time.Now().After(nextProof) {
			if rig.ProveDead(rig.DeadInterval).Dead {
				return cond()
			}
			nextProof = time.Now().Add(rig.DeadPollEvery)
		}
		if i < 200 {
			runtime.Gosched()
		} else {
			time.Sleep(50 * time.Microsecond)
		}
	}
}

// watched runs f (a library call that must not block for long) on its own
// goroutine and waits for it with the usual watchdog / dead-state proof.
func watched(f func()) bool {
	done := make(chan struct{})
	go func() {
		f()
		close(done)
	}()
	return waitCh(done)
}

// isupportLines are RPL_ISUPPORT replies as real networks send them (restrictive CHANTYPES, long LINELEN, short
// NICKLEN ...). Nothing any property states depends on what a server advertises there.
var isupportLines = []string{
	":srv 005 me CHANTYPES=# LINELEN=4096 NICKLEN=9 CHANLIMIT=#:10 PREFIX=(ov)@+ NETWORK=verif CASEMAPPING=rfc1459 :are supported by this server",
	":srv 005 me CHANTYPES=&# LINELEN=2048 MAXTARGETS=1 UTF8ONLY CHARSET=utf-8 MODES=1 TOPICLEN=10 :are supported by this server",
	":srv 005 me CHANTYPES= LINELEN=512 KICKLEN=1 AWAYLEN=1 PREFIX= STATUSMSG=@+ EXCEPTS INVEX :are supported by this server",
}

// Isupport lets the server announce its parameters (variant picks one of three replies) and waits until the line
// has been through its handlers.
func (s *Session) Isupport(mc *rig.MemConn, variant int) bool {
	l := isupportLines[((variant%len(isupportLines))+len(isupportLines))%len(isupportLines)]
	mc.SendLine(strings.Replace(l, " 005 me ", " 005 "+s.Conn.Me().Nick+" ", 1))
	return s.FgMarker(mc)
}
