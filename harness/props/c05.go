package props

import (
	"fmt"
	"strconv"
	"strings"
	"sync"
	"sync/atomic"
	"time"

	"github.com/fluffle/goirc/client"
	"github.com/fluffle/goirc/state"

	"verif/harness/model"
	"verif/harness/rig"
)

func init() {
	register(&Property{
		ID:    "C05",
		Yield: true,
		Rule: "tracked sessions of 150..300 state-changing lines on one channel, each with a unique visible effect on the channel snapshot (fresh nick JOINs, PART/KICK/QUIT of a member, NICK rename chain, TOPIC t<n>, MODE +l <n>, +k key<n>, " +
			"+o/-o/+v on members, 353 with new names); the specification states S_0,S_1,.. are produced by the relational tracker model. Foreground and background harness handlers for every verb take exactly one tracker call " +
			"(GetChannel, atomic under the tracker's lock): a foreground handler for line n first waits until the receive goroutine has logged line n+1 (so a broken loop could have applied it) and yields repeatedly, then its snapshot must equal S_n; " +
			"a background handler's snapshot must equal S_k for some n <= k <= R, R = lines the receive goroutine had logged when the call returned. The server end reads in bursts so internal handlers that send (WHO) are sometimes stalled. " +
			"Only foreground samples taken after line n+1 had been received can refute 'not ahead'; Plus virtual-time sessions (testing/synctest) whose foreground handlers run for up to an hour: the tracker must show exactly the handler's own line at entry and at exit. Supervised-reconnect sessions (see C03): the slow handler keeps querying the tracker while the link drops and a supervisor reconnects; the channel joined before its line must stay tracked and nothing of the next connection may appear while it runs. A quarter of the renames respell a nick in letter case only. A third of the topic changes remove the topic (empty trailing parameter). The channel's name has capital letters in every other session. distinct_nontrivial = distinct (verb, handler kind, next-line-already-received, GOMAXPROCS) cells.",
		Assumptions: []string{"the '<- line' log record marks the point after which the event loop may receive that line; it is used to bound R and to time foreground samples, never as an oracle for the tracker's content"},
		Plan: func(tier string, seed int64) []Batch {
			var bs []Batch
			for _, p := range []int{1, 2, 4, 16} {
				bs = append(bs, Batch{Name: fmt.Sprintf("p%d", p), Args: map[string]string{"procs": fmt.Sprint(p)}, Race: true, Procs: p, Weight: min(p, 4)})
			}
			bs = append(bs, Batch{Name: "slow-virtual", Kind: "synctest", Race: true, Args: map[string]string{"test": "TestC05SlowHandlers"}})
			for _, p := range []int{2, 16} {
				bs = append(bs, Batch{Name: fmt.Sprintf("sup-p%d", p), Args: map[string]string{"mode": "sup", "procs": fmt.Sprint(p)}, Race: true, Procs: p, Weight: min(p, 4)})
			}
			if tier == "thorough" {
				for i := 0; i < 8; i++ {
					p := []int{1, 2, 4, 16}[i%4]
					bs = append(bs, Batch{Name: fmt.Sprintf("x%d-p%d", i, p), Args: map[string]string{"procs": fmt.Sprint(p), "salt": fmt.Sprint(i), "heavy": "1"}, Race: i < 4, Procs: p, Weight: min(p, 4)})
				}
			}
			return bs
		},
		Run: runC05,
	})
}

func chanCanon(ch *state.Channel) string {
	if ch == nil {
		return "nil"
	}
	return model.RetString(model.TRet{Chan: ch})
}

func runC05(c *Ctx) {
	if c.Arg("mode", "") == "sup" {
		runSupervised(c, "C05")
		return
	}
	sessions := c.Pick(50, 400)
	if c.Arg("heavy", "") == "1" {
		sessions = 600
	}
	procs, salt := c.Arg("procs", "?"), c.Arg("salt", "")
	var recvCount int64   // number of session lines the receive goroutine has logged
	var rawIndex sync.Map // raw line -> index
	logger := rig.NewCapLogger(nil)
	logger.Discard = func(r *rig.LogRecord) bool { return true }
	logger.OnRec = func(r *rig.LogRecord) {
		if r.Format == "<- %s" && len(r.Args) == 1 {
			if s, ok := r.Args[0].(string); ok {
				if v, ok := rawIndex.Load(s); ok {
					n := int64(v.(int)) + 1
					for {
						old := atomic.LoadInt64(&recvCount)
						if n <= old || atomic.CompareAndSwapInt64(&recvCount, old, n) {
							break
						}
					}
				}
			}
		}
	}
	for idx := 0; idx < sessions; idx++ {
		if !c.Want("sess", idx) {
			continue
		}
		r := rig.Rand(c.Seed, "C05", procs, salt, idx)
		nLines := 150 + r.Intn(c.Pick(60, 151))
		c.J.Log("CASE %s lines=%d", Case("sess", idx), nLines)
		// build the session and the specification states with the relational model
		m := model.NewTModel("me")
		// the channel's name has capitals in every other session (names are compared as the server spells them)
		chn := []string{"#c", "#Chan-DE"}[idx%2]
		apply := func(op string, a ...string) { m.Apply(model.TOp{Kind: op, A: a}, false) }
		var lines []string
		var verbs []string
		var states []string // states[n] = canonical #c snapshot after line n
		members := []string{}
		fresh := 0
		topicSet := false
		push := func(verb, l string) {
			l = strings.Replace(l, " #c", " "+chn, 1)
			lines = append(lines, l)
			verbs = append(verbs, verb)
			states = append(states, chanCanon(m.ChanSnap(chn)))
		}
		// line 0: the client joins
		apply("NewChannel", chn)
		apply("Associate", chn, "me")
		push("JOIN", ":me!ident@host JOIN #c")
		for len(lines) < nLines {
			n := len(lines)
			switch k := r.Intn(12); {
			case k < 3 || len(members) < 2:
				fresh++
				nick := fmt.Sprintf("n%d", fresh)
				apply("NewNick", nick)
				apply("NickInfo", nick, "i", "h", "")
				apply("Associate", chn, nick)
				members = append(members, nick)
				push("JOIN", fmt.Sprintf(":%s!i@h JOIN #c", nick))
			case k < 4:
				i := r.Intn(len(members))
				nick := members[i]
				members = append(members[:i], members[i+1:]...)
				apply("Dissociate", chn, nick)
				push("PART", fmt.Sprintf(":%s!i@h PART #c :bye %d", nick, n))
			case k < 5:
				i := r.Intn(len(members))
				nick := members[i]
				members = append(members[:i], members[i+1:]...)
				apply("Dissociate", chn, nick)
				push("KICK", fmt.Sprintf(":me!ident@host KICK #c %s :out %d", nick, n))
			case k < 6:
				i := r.Intn(len(members))
				nick := members[i]
				members = append(members[:i], members[i+1:]...)
				apply("DelNick", nick)
				push("QUIT", fmt.Sprintf(":%s!i@h QUIT :gone %d", nick, n))
			case k < 7:
				i := r.Intn(len(members))
				fresh++
				neu := fmt.Sprintf("r%d", fresh)
				if fresh%4 == 0 {
					// a respelling in letter case only (still a unique name: the digits keep it apart)
					// (each name is respelled at most once - to upper case - so that every raw line of the session stays unique)
					if up := strings.ToUpper(members[i]); up != members[i] {
						neu = up
					}
				}
				apply("ReNick", members[i], neu)
				push("NICK", fmt.Sprintf(":%s!i@h NICK %s", members[i], neu))
				members[i] = neu
			case k < 9:
				t := fmt.Sprintf("t%d", n)
				if n%3 == 0 && topicSet {
					// the topic is removed: an empty trailing parameter (the sender's name keeps the raw line unique)
					apply("Topic", chn, "")
					push("TOPIC", fmt.Sprintf(":clr%d!i@h TOPIC #c :", n))
					topicSet = false
				} else {
					apply("Topic", chn, t)
					push("TOPIC", fmt.Sprintf(":srv TOPIC #c :%s", t))
					topicSet = true
				}
			case k < 10:
				apply("ChannelModes", chn, "+l", strconv.Itoa(n+1000))
				push("MODE", fmt.Sprintf(":srv MODE #c +l %d", n+1000))
			case k < 11:
				apply("ChannelModes", chn, "+k", fmt.Sprintf("key%d", n))
				push("MODE", fmt.Sprintf(":srv MODE #c +k key%d", n))
			default:
				// flip a privilege of a member: unique because it changes exactly that member's flag
				nick := members[r.Intn(len(members))]
				letter := "ov"[r.Intn(2)]
				cur := m.ChanSnap(chn).Nicks[nick]
				on := !(letter == 'o' && cur.Op || letter == 'v' && cur.Voice)
				ms := "-" + string(letter)
				if on {
					ms = "+" + string(letter)
				}
				// the trailing extra argument is ignored by every mode parser; it makes the raw line unique
				apply("ChannelModes", chn, ms, nick, fmt.Sprintf("x%d", n))
				push("MODE", fmt.Sprintf(":srv MODE #c %s %s x%d", ms, nick, n))
			}
		}
		// every state differs from its predecessor (unique visible effect)
		for n := 1; n < len(states); n++ {
			if states[n] == states[n-1] {
				c.R.Inconcl(fmt.Sprintf("harness: line %d %q has no visible effect", n, lines[n]))
				return
			}
		}
		rawIndex.Range(func(k, _ interface{}) bool { rawIndex.Delete(k); return true })
		dup := false
		for i, l := range lines {
			if _, loaded := rawIndex.LoadOrStore(l, i); loaded {
				dup = true
			}
		}
		if dup {
			c.R.Inconcl("harness: duplicate raw line in a C05 session")
			return
		}
		atomic.StoreInt64(&recvCount, 0)

		s := NewSession(SessionOpts{Tracking: true, Flood: true})
		st := s.Conn.StateTracker()
		type sample struct {
			n        int
			bg       bool
			snap     string
			recvAt   int64  // lines received when the call returned
			nextSeen bool   // fg: line n+1 had been received before the sample
			snap2    string // fg: a second snapshot taken just before the handler returns ("" = not taken)
			late     bool   // the handler entered after the harness had begun to end the connection: not judged
		}
		abrupt := idx%3 == 1 // the connection is ended while handlers are running and lines are queued
		var causeFired int32
		var mu sync.Mutex
		var samples []sample
		mk := func(bg bool) client.HandlerFunc {
			return func(_ *client.Conn, l *client.Line) {
				v, ok := rawIndex.Load(l.Raw)
				if !ok {
					return
				}
				n := v.(int)
				next := false
				if !bg {
					// give a broken loop every chance to run ahead: wait until recv has the next line
					dl := time.Now().Add(2 * time.Millisecond)
					for atomic.LoadInt64(&recvCount) <= int64(n+1) && time.Now().Before(dl) {
						runtimeGosched()
					}
					next = atomic.LoadInt64(&recvCount) > int64(n+1)
					for k := 0; k < 20; k++ {
						runtimeGosched()
					}
				}
				late := atomic.LoadInt32(&causeFired) == 1
				ch := st.GetChannel(chn) // the one tracker call
				ra := atomic.LoadInt64(&recvCount)
				snap2 := ""
				if !bg {
					// stay in the handler a little longer (in abrupt sessions: until the teardown has begun) and look again
					if abrupt {
						dl := time.Now().Add(time.Millisecond)
						for atomic.LoadInt32(&causeFired) == 0 && time.Now().Before(dl) {
							runtimeGosched()
						}
						time.Sleep(150 * time.Microsecond)
					} else {
						for k := 0; k < 10; k++ {
							runtimeGosched()
						}
					}
					snap2 = chanCanon(st.GetChannel(chn))
				}
				mu.Lock()
				samples = append(samples, sample{n, bg, chanCanon(ch), ra, next, snap2, late})
				mu.Unlock()
			}
		}
		var connSnaps [2]string
		var connSeen int32
		s.Conn.HandleFunc(client.CONNECTED, func(_ *client.Conn, l *client.Line) {
			// the welcome has been applied and no later line has: the channel of line 0 does not exist yet,
			// neither now nor after the following lines have been received
			connSnaps[0] = chanCanon(st.GetChannel(chn))
			dl := time.Now().Add(2 * time.Millisecond)
			for atomic.LoadInt64(&recvCount) < 2 && time.Now().Before(dl) {
				runtimeGosched()
			}
			for k := 0; k < 20; k++ {
				runtimeGosched()
			}
			connSnaps[1] = chanCanon(st.GetChannel(chn))
			atomic.StoreInt32(&connSeen, 1)
		})
		for _, v := range []string{"JOIN", "PART", "KICK", "QUIT", "NICK", "TOPIC", "MODE"} {
			s.Conn.HandleFunc(v, mk(false))
			s.Conn.HandleBG(v, mk(true))
		}
		mc, err := s.Connect()
		if err != nil {
			c.R.Inconcl("connect: " + err.Error())
			return
		}
		if !AwaitRegistration(mc) {
			c.R.Inconcl("registration not seen")
			return
		}
		// the server reads in bursts: internal handlers that send (WHO for fresh nicks) stall now and then
		mc.Stall(0)
		stop := make(chan struct{})
		var ctl sync.WaitGroup
		ctl.Add(1)
		go func() {
			defer ctl.Done()
			rr := rig.Rand(c.Seed, "C05ctl", idx)
			for {
				select {
				case <-stop:
					mc.Resume()
					return
				default:
				}
				mc.Allow(1 + rr.Intn(40))
				time.Sleep(time.Duration(50+rr.Intn(300)) * time.Microsecond)
			}
		}()
		stream := []byte(":srv 001 me :Welcome to the session me!ident@host\r\n")
		for _, l := range lines {
			stream = append(stream, l+"\r\n"...)
		}
		var cuts []int
		for q := 1 + r.Intn(40); q < len(stream); q += 1 + r.Intn(300) {
			cuts = append(cuts, q)
		}
		mc.SendSegmented(stream, cuts)
		if abrupt {
			// end the connection once a PRNG share of the lines has been handled
			target := (10 + r.Intn(80)) * len(lines) / 100
			waitUntilShort(func() bool { mu.Lock(); defer mu.Unlock(); return len(samples) >= 2*target }, 5*time.Second)
			atomic.StoreInt32(&causeFired, 1)
			closed := CloseWatched(s.Conn)
			close(stop)
			ctl.Wait()
			if !closed {
				c.R.Inconcl(fmt.Sprintf("%s: Close did not return (judged by C07)", Case("sess", idx)))
				return
			}
			rig.WaitNoLib(WaitShort, 400)
		}
		okM := abrupt || s.FgMarker(mc)
		if !abrupt {
			close(stop)
			ctl.Wait()
		}
		if !okM {
			ds := rig.ProveDead(WaitShort)
			if ds.Dead {
				c.R.Violate(rig.Violation{Sig: "c05|session-stuck", Detail: "tracked session stopped being processed: dead state " + ds.Signature, Case: Case("sess", idx)})
			} else {
				c.R.Inconcl(fmt.Sprintf("%s: marker not reached (%s)", Case("sess", idx), ds.Reason))
			}
			return
		}
		// background samples may still be on their way
		if !abrupt {
			waitUntil(func() bool { mu.Lock(); defer mu.Unlock(); return len(samples) >= 2*len(lines) })
		}
		mu.Lock()
		got := append([]sample(nil), samples...)
		mu.Unlock()
		c.R.Eval(1)
		c.R.Count("samples", int64(len(got)))
		if atomic.LoadInt32(&connSeen) == 1 {
			for k, sn := range connSnaps {
				if sn != "nil" {
					c.R.Violate(rig.Violation{Sig: "c05|connected-handler-ahead", Detail: fmt.Sprintf("while the CONNECTED handler ran (sample %d) the tracker already showed the channel of a later line: %s", k, clipS(sn)), Case: Case("sess", idx)})
					break
				}
			}
			c.R.Class("CONNECTED|fg|procs=" + procs)
		} else if !abrupt {
			c.R.Violate(rig.Violation{Sig: "c05|connected-missing", Detail: "the welcome was processed but the CONNECTED handler never ran", Case: Case("sess", idx)})
		}
		if !abrupt && len(got) != 2*len(lines) {
			c.R.Inconcl(fmt.Sprintf("%s: %d samples for %d lines x 2 handlers", Case("sess", idx), len(got), len(lines)))
			return
		}
		for _, sm := range got {
			kind := "fg"
			if sm.bg {
				kind = "bg"
			}
			viol := func(k, d string) {
				c.R.Violate(rig.Violation{Sig: "c05|" + k, Detail: fmt.Sprintf("%s handler for line %d %q (procs=%s): %s", kind, sm.n, lines[sm.n], procs, d), Case: Case("sess", idx),
					Witness: map[string]interface{}{"snapshot": sm.snap, "expected_after_line": states[sm.n]}})
			}
			if sm.late {
				continue // entered after the teardown had begun: lines before it may have been discarded
			}
			if !sm.bg && sm.snap == states[sm.n] && sm.snap2 != "" && sm.snap2 != states[sm.n] {
				at := -1
				for k, s2 := range states {
					if s2 == sm.snap2 {
						at = k
					}
				}
				viol("fg-ahead-before-return", fmt.Sprintf("the tracker moved on to the state after line %d while the handler was still running (abrupt end: %v)", at, abrupt))
				break
			}
			if !sm.bg {
				if sm.snap != states[sm.n] {
					// which state is it?
					at := -1
					for k, s2 := range states {
						if s2 == sm.snap {
							at = k
						}
					}
					switch {
					case at >= 0 && at < sm.n:
						viol("fg-lagging", fmt.Sprintf("the tracker still showed the state after line %d", at))
					case at > sm.n:
						viol("fg-ahead", fmt.Sprintf("the tracker already showed the state after line %d", at))
					default:
						viol("fg-unknown-state", "the tracker showed a state that is none of S_0..S_N")
					}
					break
				}
				if sm.nextSeen {
					c.R.Count("fg_samples_after_next_line_received", 1)
				}
				c.R.Class(fmt.Sprintf("%s|fg|next-received=%v|procs=%s|abrupt=%v", verbs[sm.n], sm.nextSeen, procs, abrupt))
			} else {
				hi := int(sm.recvAt) - 1
				if hi >= len(states) {
					hi = len(states) - 1
				}
				okS := false
				for k := sm.n; k <= hi; k++ {
					if states[k] == sm.snap {
						okS = true
						break
					}
				}
				if !okS {
					at := -1
					for k, s2 := range states {
						if s2 == sm.snap {
							at = k
						}
					}
					if at >= 0 && at < sm.n {
						viol("bg-lagging", fmt.Sprintf("the tracker still showed the state after line %d", at))
					} else {
						viol("bg-outside-window", fmt.Sprintf("snapshot corresponds to line %d, allowed window [%d,%d]", at, sm.n, hi))
					}
					break
				}
				c.R.Class(fmt.Sprintf("%s|bg|procs=%s", verbs[sm.n], procs))
			}
		}
		if idx%5 == 0 {
			c.R.Sample(map[string]interface{}{"lines": len(lines), "first_lines": lines[:4], "samples": len(got), "procs": procs, "state_after_last_line": clipS(states[len(states)-1])})
		}
		go s.Conn.Close()
		s.Release()
		_ = strings.Join
	}
}
