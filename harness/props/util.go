package props

import (
	"context"
	"hash/fnv"
	"regexp"
	"runtime"
	"sort"
	"strings"
)

var digitsRe = regexp.MustCompile(`\d+`)

func runtimeGosched() { runtime.Gosched() }

func sortStrings(s []string) { sort.Strings(s) }

func hashStr(s string) uint64 {
	h := fnv.New64a()
	h.Write([]byte(s))
	return h.Sum64()
}

// raceAccessFuncs returns, for each of the two accesses of a race-detector
// report, the innermost function that is not in the Go runtime.
func raceAccessFuncs(rep string) []string {
	var out []string
	lines := strings.Split(rep, "\n")
	for i := 0; i < len(lines); i++ {
		l := strings.TrimSpace(lines[i])
		if strings.HasPrefix(l, "Read at") || strings.HasPrefix(l, "Write at") || strings.HasPrefix(l, "Previous read at") || strings.HasPrefix(l, "Previous write at") ||
			strings.HasPrefix(l, "Atomic read at") || strings.HasPrefix(l, "Atomic write at") || strings.HasPrefix(l, "Previous atomic") {
			fn := ""
			for j := i + 1; j < len(lines); j++ {
				t := strings.TrimSpace(lines[j])
				if t == "" {
					break
				}
				if strings.HasPrefix(t, "/") || !strings.Contains(t, "(") {
					continue // file:line
				}
				if strings.HasPrefix(t, "runtime.") || strings.HasPrefix(t, "internal/") {
					continue
				}
				fn = t
				break
			}
			out = append(out, fn)
		}
	}
	return out
}

// raceBothIn reports whether both accesses of the report are in functions containing sub.
func raceBothIn(rep string, subs ...string) bool {
	fs := raceAccessFuncs(rep)
	if len(fs) < 2 {
		return false
	}
	for _, f := range fs[:2] {
		ok := false
		for _, s := range subs {
			if strings.Contains(f, s) {
				ok = true
			}
		}
		if !ok {
			return false
		}
	}
	return true
}

func contextBackground() context.Context { return context.Background() }
