package props

import (
	"regexp"
	"runtime"
)

var digitsRe = regexp.MustCompile(`\d+`)

func runtimeGosched() { runtime.Gosched() }
