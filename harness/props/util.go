package props

import "regexp"

var digitsRe = regexp.MustCompile(`\d+`)
