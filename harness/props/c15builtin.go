package props

import (
	"fmt"
	"reflect"
	"strings"
	"sync"

	"github.com/fluffle/goirc/client"

	"verif/harness/rig"
)

// Built-in mode of C15: the events are the ones the library's own handlers work on (CAP, 353, 352, MODE, membership
// verbs, registration numerics, NOTICE greetings that are already waiting when the client connects) and the
// pseudo-event REGISTER, which Connect dispatches from the caller's goroutine while the event loop is already
// running. User handlers (two foreground, one background per verb) compare the line they get with the parse of
// what was sent and then scribble over their copy: whatever the built-in handlers do with *their* lines, and however
// dispatches from different goroutines overlap, no user handler may see a mark or a line of another event.
func runC15Builtin(c *Ctx) {
	sessions := c.Pick(60, 600)
	procs := c.Arg("procs", "?")
	verbs := []string{"CAP", "353", "352", "MODE", "324", "332", "311", "671", "JOIN", "PART", "KICK", "QUIT", "NICK", "TOPIC", "001", "433", "410", "903", "904", "908", "AUTHENTICATE", "PRIVMSG", "NOTICE", "CTCP", "ACTION", "VERSION"}
	for idx := 0; idx < sessions; idx++ {
		if !c.Want("builtin", idx) {
			continue
		}
		r := rig.Rand(c.Seed, "C15builtin", procs, idx)
		tracking := idx%2 == 0
		c.J.Log("CASE %s tracking=%v", Case("builtin", idx), tracking)
		s := NewSession(SessionOpts{Flood: true, Tracking: tracking})
		var mu sync.Mutex
		expect := map[string]*client.Line{} // raw line as sent -> its parse
		var bad []string
		nInv := 0
		note := func(f string, a ...interface{}) {
			mu.Lock()
			if len(bad) < 5 {
				bad = append(bad, fmt.Sprintf(f, a...))
			}
			mu.Unlock()
		}
		mk := func(verb string, h int) client.HandlerFunc {
			return func(_ *client.Conn, l *client.Line) {
				mu.Lock()
				nInv++
				exp := expect[l.Raw]
				mu.Unlock()
				if verb == client.REGISTER {
					if l.Cmd != client.REGISTER || len(l.Args) != 0 || l.Raw != "" {
						note("a REGISTER handler was given the line %+v", *l)
					}
				} else if n := len(l.Args); n > 0 && strings.HasPrefix(l.Args[n-1], "sync-") {
					return // the harness's wire marker
				} else if exp == nil {
					note("handler %d for %s was given a line whose Raw %q was never sent (line %+v)", h, verb, l.Raw, *l)
				} else {
					want := deepCopyLine(exp)
					want.Time = l.Time
					if len(want.Args) == 0 && len(l.Args) == 0 {
						want.Args = l.Args
					}
					if !strings.EqualFold(l.Cmd, verb) && !(verb == "CTCP" || verb == "ACTION" || verb == "VERSION" || verb == "PRIVMSG" || verb == "NOTICE") {
						note("handler %d registered for %s was given a %s line: %q", h, verb, l.Cmd, l.Raw)
					} else if !reflect.DeepEqual(want, l) {
						note("handler %d for %s: got %+v, the parse of what was sent is %+v", h, verb, *l, *want)
					}
				}
				// scribble over the copy
				mark := fmt.Sprintf("B%d", h)
				for i := range l.Args {
					l.Args[i] = mark
				}
				l.Args = append(l.Args, mark)
				for k := range l.Tags {
					l.Tags[k] = mark
				}
				l.Nick, l.Ident, l.Host, l.Src, l.Cmd, l.Raw = mark, mark, mark, mark, mark, mark
			}
		}
		for _, v := range append([]string{client.REGISTER}, verbs...) {
			s.Conn.HandleFunc(v, mk(v, 1))
			s.Conn.HandleFunc(v, mk(v, 2))
			s.Conn.HandleBG(v, mk(v, 3))
		}
		// the server talks first: its greeting is waiting when the event loop starts
		greet := []string{":srv NOTICE * :*** Looking up your hostname", ":srv NOTICE * :*** Checking ident", ":srv NOTICE * :*** Found your hostname"}
		for _, g := range greet {
			expect[g] = client.ParseLine(g)
		}
		s.EP.Prepare(func(mc *rig.MemConn) {
			for _, g := range greet {
				mc.SendLine(g)
			}
		})
		mc, err := s.Connect()
		if err != nil {
			c.R.Inconcl("connect: " + err.Error())
			return
		}
		send := func(raw string) {
			if p := client.ParseLine(raw); p != nil {
				mu.Lock()
				expect[raw] = p
				mu.Unlock()
				mc.SendLine(raw)
			}
		}
		send(":srv 001 me :Welcome me!ident@host")
		if tracking {
			send(":me!ident@host JOIN #c")
			send(":srv 353 me = #c :@me +ghost other")
			send(":srv 353 me #c :me ghost") // the RFC 1459 form without the channel type
		}
		ok := true
		for n := 0; n < 40 && ok; n++ {
			p := c02BuiltinProbe(r)
			if strings.Contains(p.raw, "ERROR") || strings.ContainsAny(p.raw, "\r\n") {
				continue
			}
			send(fmt.Sprintf("%s", p.raw))
			if n%10 == 9 {
				if tracking {
					send(":me!ident@host JOIN #c")
				}
				if !s.FgMarker(mc) {
					ds := rig.ProveDead(WaitShort)
					if !ds.Dead {
						c.R.Inconcl(fmt.Sprintf("%s: marker not reached (%s)", Case("builtin", idx), ds.Reason))
						return
					}
					c.R.Note(fmt.Sprintf("%s: delivery stopped (C02/C16's subject): %s", Case("builtin", idx), ds.Signature))
					ok = false
				}
			}
		}
		c.R.Eval(1)
		mu.Lock()
		c.R.Count("builtin_event_invocations", int64(nInv))
		for _, b := range bad {
			c.R.Violate(rig.Violation{Sig: "c15|builtin-entry-differs", Detail: fmt.Sprintf("%s (tracking=%v, procs=%s)", clipS(b), tracking, procs), Case: Case("builtin", idx)})
		}
		nb := len(bad)
		mu.Unlock()
		go s.Conn.Close()
		s.Release()
		if nb > 0 && c.R.NumViolations() > 10 {
			return
		}
	}
}
