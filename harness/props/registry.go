// Package props holds one worker per property: each generates its case
// list as a pure function of (property, tier, seed, batch), runs the real
// library under it and judges what the monitors observed.
package props

import (
	"fmt"
	"math/rand"
	"sort"
	"strconv"
	"strings"
	"sync"

	"verif/harness/rig"
)

// Batch is one child process of a check.
type Batch struct {
	Name     string            `json:"name"`
	Args     map[string]string `json:"args,omitempty"`
	Race     bool              `json:"race"`
	Procs    int               `json:"procs,omitempty"`     // GOMAXPROCS (0 = all cores)
	Kind     string            `json:"kind,omitempty"`      // "" = worker process, "synctest" = go1.26.8 test bubble
	TimeoutS int               `json:"timeout_s,omitempty"` // wall-clock watchdog (inconclusive when it fires)
	Weight   int               `json:"-"`                   // scheduling hint: cores used
	Yield    bool              `json:"yield,omitempty"`     // run by the binary built against the schedule-perturbed copy (cmd/perturb), VERIF_YIELD set
}

// Ctx is what a worker gets.
type Ctx struct {
	Prop  string
	Tier  string
	Seed  int64
	Batch Batch
	Only  string          // "" or "<gen>:<idx>": run only that case
	Skip  map[string]bool // cases excluded (culprits of earlier crashes)
	R     *rig.Result
	J     *rig.Journal
	// Finish writes the result as it stands and ends the worker process (for monitors that find the worker's own
	// goroutine stuck inside the library for good).
	Finish func()
}

// WatchTrackerCalls ends the worker with a violation when a tracker call made on the worker's own goroutine never
// returns (dead-state proof); sigPrefix is the property's signature prefix.
func (c *Ctx) WatchTrackerCalls(sigPrefix string) {
	rig.StallWatch(c.R.Evals, func(ds rig.DeadState) {
		c.R.Violate(rig.Violation{
			Sig:     sigPrefix + "|tracker-call-never-returns|" + ds.Signature,
			Detail:  "a call into the tracker never returns: every goroutine of the process is blocked for good (" + ds.Signature + "); case in flight: " + c.J.Last(),
			Case:    caseOfJournal(c.J.Last()),
			Witness: ds.Dump,
		})
		if c.Finish != nil {
			c.Finish()
		}
	})
}

func caseOfJournal(l string) string {
	if f := strings.Fields(l); len(f) > 1 && f[0] == "CASE" {
		return f[1]
	}
	return ""
}

// Arg returns a batch argument or def.
func (c *Ctx) Arg(k, def string) string {
	if v, ok := c.Batch.Args[k]; ok {
		return v
	}
	return def
}

// ArgInt returns an integer batch argument or def.
func (c *Ctx) ArgInt(k string, def int) int {
	if v, ok := c.Batch.Args[k]; ok {
		n, err := strconv.Atoi(v)
		if err == nil {
			return n
		}
	}
	return def
}

// Want reports whether case idx of generator gen is to be run.
func (c *Ctx) Want(gen string, idx int) bool {
	id := fmt.Sprintf("%s:%d", gen, idx)
	if c.Skip[id] {
		return false
	}
	if c.Only != "" && c.Only != id {
		return false
	}
	setCurrentCase(c.Seed, c.Prop+"/"+c.Batch.Name+"/"+id)
	if c.Batch.Yield {
		// every case of a perturbed batch gets its own set of hot yield points
		rig.YieldReseed(uint64(rig.Rand(c.Seed, "yield", c.Prop, c.Batch.Name, id).Int63()))
	}
	return true
}

// The case in flight: NewSession derives the configuration values no property depends on (see there) from it, so
// that a replayed case gets the same ones.
var (
	curMu   sync.Mutex
	curSeed int64
	curCase string
	curSess int
)

func setCurrentCase(seed int64, id string) {
	curMu.Lock()
	curSeed, curCase, curSess = seed, id, 0
	curMu.Unlock()
}

// sessionRand returns the PRNG for the next session of the case in flight.
func sessionRand() *rand.Rand {
	curMu.Lock()
	defer curMu.Unlock()
	curSess++
	return rig.Rand(curSeed, "cfgfuzz", curCase, curSess)
}

// WantGen reports whether any case of generator gen may be wanted.
func (c *Ctx) WantGen(gen string) bool {
	return c.Only == "" || strings.HasPrefix(c.Only, gen+":")
}

// Case formats a case identifier.
func Case(gen string, idx int) string { return fmt.Sprintf("%s:%d", gen, idx) }

// Quick reports whether this is the quick tier.
func (c *Ctx) Quick() bool { return c.Tier != "thorough" }

// Pick returns q in the quick tier and t in the thorough tier.
func (c *Ctx) Pick(q, t int) int {
	if c.Quick() {
		return q
	}
	return t
}

// Property describes one check.
type Property struct {
	ID          string
	Level       string // evidence level
	Rule        string // how cases are generated and what makes one distinct / non-trivial
	Assumptions []string
	Plan        func(tier string, seed int64) []Batch
	Run         func(c *Ctx)
	// RaceClaim decides whether a race-detector report (full text) is a
	// violation of this property; nil = never.
	RaceClaim func(report string) bool
	// Yield: in addition to its plan the check runs copies of some of its worker batches (YieldPlan) against the
	// schedule-perturbed copy of the library.
	Yield bool
	// MinClasses is the number of distinct non-trivial classes below which a
	// run counts as having observed too little (inconclusive). Default 2.
	MinClasses int
}

// Registry of all properties.
var Registry = map[string]*Property{}

func register(p *Property) {
	if p.Level == "" {
		p.Level = "exploration"
	}
	if p.MinClasses == 0 {
		p.MinClasses = 2
	}
	Registry[p.ID] = p
}

// IDs returns the sorted property ids.
func IDs() []string {
	var out []string
	for k := range Registry {
		out = append(out, k)
	}
	sort.Strings(out)
	return out
}

// splitBatches is a helper for plans: n batches named prefix-i with arg part=i/n.
func splitBatches(prefix string, n int, race bool, procs int, extra map[string]string) []Batch {
	var out []Batch
	for i := 0; i < n; i++ {
		a := map[string]string{"part": strconv.Itoa(i), "parts": strconv.Itoa(n)}
		for k, v := range extra {
			a[k] = v
		}
		out = append(out, Batch{Name: fmt.Sprintf("%s-%d", prefix, i), Args: a, Race: race, Procs: procs})
	}
	return out
}

// YieldPlan returns the perturbed copies ("y-<name>") of a plan's batches: in the quick tier one worker batch per
// mode (the one with GOMAXPROCS 4 if there is one), in the thorough tier every worker batch. Batches that wait for
// real flood-control sleeps are left out (they measure nothing a yield could change and take seconds each).
// modes whose batches get no perturbed copy: real flood-control sleeps, and workloads with a single goroutine
var noYieldModes = map[string]bool{"flood": true, "alias": true, "defnick": true}

func YieldPlan(tier string, plan []Batch) []Batch {
	var out []Batch
	cp := func(b Batch) Batch {
		n := b
		n.Name = "y-" + b.Name
		n.Yield = true
		n.Race = true
		n.Args = map[string]string{}
		for k, v := range b.Args {
			n.Args[k] = v
		}
		return n
	}
	if tier == "thorough" {
		for _, b := range plan {
			if b.Kind == "" && !noYieldModes[b.Args["mode"]] {
				out = append(out, cp(b))
			}
		}
		return out
	}
	best := map[string]int{}
	var modes []string
	for i, b := range plan {
		if b.Kind != "" || !b.Race || noYieldModes[b.Args["mode"]] || b.Args["mode"] == "exh" {
			// (the exhaustive enumerations are the longest batches of their checks: perturbed only in the thorough tier)
			continue
		}
		m := b.Args["mode"] + "/" + b.Args["tracking"]
		j, ok := best[m]
		if !ok {
			best[m] = i
			modes = append(modes, m)
		} else if plan[j].Procs != 4 && b.Procs == 4 {
			best[m] = i
		}
	}
	for _, m := range modes {
		out = append(out, cp(plan[best[m]]))
	}
	return out
}
