package props

import (
	"fmt"
	"math"
	"strings"
	"sync"
	"time"

	"github.com/fluffle/goirc/client"

	"verif/harness/rig"
)

func init() {
	register(&Property{
		ID: "C11",
		Rule: "Privmsg, Privmsgln, Privmsgf, Notice, Ctcp, CtcpReply and Action are called over a live in-memory connection with SplitLen in {-5,0,1,12,13,14,20,50,450,1000}; texts: every string over {a, space, '.'} " +
			"of the stated lengths at SplitLen 13 (exhaustive), and PRNG texts of 0..6000 bytes from classes (no spaces, only spaces, each separator .:;,!?\"' + space placed at offsets s-5..s+1, separator at offset 0, " +
			"multi-byte runes, '...' already present, arbitrary bytes). Judged on the wire: piece length <= SplitLen, '...' on every piece but the last, no empty piece, pieces minus markers concatenate to the text, " +
			"same target, exactly one piece when the text fits. In the concurrent mode the server PINGs between the pieces (every PING answered exactly once, no line torn). SplitLen values include MinInt, MinInt+1, MinInt+2, MinInt32 and -1; every third session sets SplitLen through Config() on the connected client. Every 97th text is sent again right after Config().SplitLen was changed. Half of the sessions follow an RPL_ISUPPORT announcement with a long LINELEN (the split length stays the application's). distinct_nontrivial = distinct (method, SplitLen, cut rule used: sentence/word/hard, number of pieces bucket, text class) among texts that were actually split.",
		Assumptions: []string{"calls issued from one goroutine; consecutive wire lines are attributed to calls by the per-call target token", "flood control off (Flood=true)"},
		Plan: func(tier string, seed int64) []Batch {
			var bs []Batch
			bs = append(bs, splitBatches("exh", 9, false, 2, map[string]string{"mode": "exh"})...)
			n := 7
			if tier == "thorough" {
				n = 14
			}
			bs = append(bs, splitBatches("prng", n, false, 2, map[string]string{"mode": "prng"})...)
			for _, p := range []int{2, 8} {
				bs = append(bs, Batch{Name: fmt.Sprintf("conc-p%d", p), Args: map[string]string{"mode": "conc", "procs": fmt.Sprint(p)}, Race: true, Procs: p, Weight: min(p, 4)})
			}
			return bs
		},
		Run: runC11,
	})
}

type c11Method struct {
	Name string
	Call func(c *client.Conn, t, x string)
	// unwrap turns the wire line's text (after "VERB target :") into the piece
	Verb string
	CTCP string // "" or the CTCP verb wrapper
}

var c11Methods = []c11Method{
	{"Privmsg", func(c *client.Conn, t, x string) { c.Privmsg(t, x) }, "PRIVMSG", ""},
	{"Privmsgln", func(c *client.Conn, t, x string) { c.Privmsgln(t, x) }, "PRIVMSG", ""},
	{"Privmsgf", func(c *client.Conn, t, x string) { c.Privmsgf(t, "%s", x) }, "PRIVMSG", ""},
	{"Notice", func(c *client.Conn, t, x string) { c.Notice(t, x) }, "NOTICE", ""},
	{"Ctcp", func(c *client.Conn, t, x string) { c.Ctcp(t, "foo", x) }, "PRIVMSG", "FOO"},
	{"CtcpReply", func(c *client.Conn, t, x string) { c.CtcpReply(t, "bar", x) }, "NOTICE", "BAR"},
	{"Action", func(c *client.Conn, t, x string) { c.Action(t, x) }, "PRIVMSG", "ACTION"},
	// the variadic forms with several operands: the text is what Sprintln / Sprintf make of them
	{"Privmsgln/2", func(c *client.Conn, t, x string) { a, b := c11Halves(x); c.Privmsgln(t, a, b) }, "PRIVMSG", ""},
	{"Privmsgf/2", func(c *client.Conn, t, x string) { a, b := c11Halves(x); c.Privmsgf(t, "%s %s", a, b) }, "PRIVMSG", ""},
	{"Ctcp/2", func(c *client.Conn, t, x string) { a, b := c11Halves(x); c.Ctcp(t, "foo", a, b) }, "PRIVMSG", "FOO"},
}

// c11Effective is the text a call with argument text stands for: the two-operand forms join (x, "")
// with a space, which makes the trailing space part of the text.
func c11Effective(m *c11Method, text string) string {
	if strings.HasSuffix(m.Name, "/2") && !strings.Contains(text[len(text)/2:], " ") {
		return text + " "
	}
	return text
}

// c11Halves cuts x at its middle space (operands are joined with one space again); texts without a
// space in the right place are passed as (x, "") minus the joining space, so the call always means x.
func c11Halves(x string) (string, string) {
	if i := strings.Index(x[len(x)/2:], " "); i >= 0 {
		k := len(x)/2 + i
		return x[:k], x[k+1:]
	}
	return x, ""
}

type c11Call struct {
	caseID string
	m      *c11Method
	target string
	text   string
	class  string
}

var c11Opened int

type c11Sess struct {
	s        *Session
	mc       *rig.MemConn
	splitLen int
	pending  []c11Call
	n        int
	lastCall string
}

func c11Open(c *Ctx, splitLen int) *c11Sess {
	c11Opened++
	s := NewSession(SessionOpts{Flood: true, Mutate: func(cfg *client.Config) {
		if c11Opened%3 != 0 {
			cfg.SplitLen = splitLen
		}
		if c11Opened%2 == 0 {
			cfg.Timeout = 0 // "wait indefinitely" for the dial; must not matter for sending
		}
	}})
	mc, err := s.Connect()
	if c11Opened%3 == 0 {
		// every third session sets the split length only now, through Config(), on the connected client
		s.Conn.Config().SplitLen = splitLen
	}
	if err != nil {
		c.R.Inconcl("connect: " + err.Error())
		return nil
	}
	if !AwaitRegistration(mc) {
		c.R.Inconcl("registration not seen")
		return nil
	}
	if c11Opened%4 < 2 {
		// the server of half of the sessions announces its parameters (long lines among them): the split length is the
		// application's choice - 450 when it made none - whatever the server says it can take
		if !s.Isupport(mc, c11Opened/4) {
			c.R.Inconcl("005 not processed")
			return nil
		}
		c.R.Count("sessions_after_isupport", 1)
	}
	mc.Take()
	return &c11Sess{s: s, mc: mc, splitLen: splitLen}
}

func (cs *c11Sess) close(c *Ctx) bool {
	ok := cs.flush(c)
	cs.s.Conn.Close()
	cs.s.Release()
	return ok
}

func (cs *c11Sess) call(c *Ctx, caseID string, m *c11Method, text, class string) bool {
	cs.n++
	t := fmt.Sprintf("#t%d", cs.n%9)
	if cs.n%2 == 0 {
		t = fmt.Sprintf("n%d", cs.n%7)
	}
	text = c11Effective(m, text)
	cs.pending = append(cs.pending, c11Call{caseID, m, t, text, class})
	cs.lastCall = fmt.Sprintf("%s(%q, %d bytes: %q) SplitLen=%d", m.Name, t, len(text), clipS(text), cs.splitLen)
	rig.CallTick()
	m.Call(cs.s.Conn, t, text)
	if len(cs.pending) >= 1500 {
		return cs.flush(c)
	}
	return true
}

func cutRule(piece string) string {
	// piece is a non-final piece without its marker
	if strings.HasSuffix(piece, " ") {
		if len(piece) >= 2 && strings.ContainsRune(".:;,!?\"'", rune(piece[len(piece)-2])) {
			return "sentence"
		}
		return "word"
	}
	return "hard"
}

// flush waits for everything issued so far and judges it.
func (cs *c11Sess) flush(c *Ctx) bool {
	if len(cs.pending) == 0 {
		return true
	}
	sep := fmt.Sprintf("VSYNC %d", cs.n)
	cs.s.Conn.Raw(sep)
	if !cs.mc.WaitLines(WaitLong, func(lines []string) bool { return len(lines) > 0 && lines[len(lines)-1] == sep }) {
		c.R.Inconcl("separator not seen in C11 batch ending at " + cs.pending[len(cs.pending)-1].caseID)
		return false
	}
	lines, _ := cs.mc.Take()
	lines = lines[:len(lines)-1]
	ok := c11Judge(c, cs, cs.pending, lines)
	cs.pending = cs.pending[:0]
	return ok
}

// c11Judge attributes the wire lines to the calls (in order) and checks every call.
func c11Judge(c *Ctx, cs *c11Sess, pending []c11Call, lines []string) bool {
	eff := cs.splitLen
	if eff < 13 {
		eff = 450
	}
	li := 0
	for _, call := range pending {
		c.J.Log("CASE %s %s len=%d sl=%d", call.caseID, call.m.Name, len(call.text), cs.splitLen)
		c.R.Eval(1)
		prefix := call.m.Verb + " " + call.target + " :"
		var pieces []string
		bad := ""
		// consume the lines belonging to this call: consecutive calls use different
		// targets, so they are exactly the following lines carrying this call's prefix
		for li < len(lines) {
			l := lines[li]
			if !strings.HasPrefix(l, prefix) {
				break
			}
			p := l[len(prefix):]
			if call.m.CTCP != "" {
				w := "\x01" + call.m.CTCP
				if !strings.HasPrefix(p, w) || !strings.HasSuffix(p, "\x01") || len(p) < len(w)+1 {
					bad = fmt.Sprintf("CTCP wrapper missing in %q", clipS(l))
					li++
					break
				}
				p = p[len(w) : len(p)-1]
				if p != "" {
					if p[0] != ' ' {
						bad = fmt.Sprintf("CTCP verb not followed by a space in %q", clipS(l))
						li++
						break
					}
					p = p[1:]
				}
			}
			pieces = append(pieces, p)
			li++
		}
		viol := func(kind, detail string) {
			c.R.Violate(rig.Violation{
				Sig:     "c11|" + kind,
				Detail:  fmt.Sprintf("%s(%q, text of %d bytes) SplitLen=%d: %s", call.m.Name, call.target, len(call.text), cs.splitLen, detail),
				Case:    call.caseID,
				Witness: map[string]interface{}{"method": call.m.Name, "text": clipS(call.text), "splitlen": cs.splitLen, "pieces": clip(pieces)},
			})
		}
		if bad != "" {
			viol("wrapper", bad)
			return false
		}
		if len(pieces) == 0 {
			viol("no-output", "no line with the call's target followed")
			return false
		}
		var sb strings.Builder
		ok := true
		for i, q := range pieces {
			if len(q) > eff {
				viol("piece-too-long", fmt.Sprintf("piece %d has %d bytes > %d", i, len(q), eff))
				ok = false
				break
			}
			if i < len(pieces)-1 {
				if !strings.HasSuffix(q, "...") {
					viol("marker-missing", fmt.Sprintf("non-final piece %d %q lacks the continuation marker", i, clipS(q)))
					ok = false
					break
				}
				q = strings.TrimSuffix(q, "...")
			}
			if q == "" && len(call.text) > eff {
				viol("empty-piece", fmt.Sprintf("piece %d of a split text is empty", i))
				ok = false
				break
			}
			sb.WriteString(q)
		}
		if ok && sb.String() != call.text {
			viol("not-lossless", fmt.Sprintf("pieces reassemble to %q, want %q", clipS(sb.String()), clipS(call.text)))
			ok = false
		}
		if ok && len(call.text) <= eff && len(pieces) != 1 {
			viol("split-though-fits", fmt.Sprintf("%d pieces for a text that fits", len(pieces)))
			ok = false
		}
		if !ok {
			return false
		}
		if len(pieces) > 1 {
			nb := fmt.Sprint(len(pieces))
			if len(pieces) > 4 {
				nb = "5+"
			}
			rules := map[string]bool{}
			for _, q := range pieces[:len(pieces)-1] {
				rules[cutRule(strings.TrimSuffix(q, "..."))] = true
			}
			var rl []string
			for _, k := range []string{"sentence", "word", "hard"} {
				if rules[k] {
					rl = append(rl, k)
				}
			}
			c.R.Class(fmt.Sprintf("%s|sl%d|%s|pieces%s|%s", call.m.Name, cs.splitLen, strings.Join(rl, "+"), nb, call.class))
			c.R.Count("texts_split", 1)
			c.R.Count("pieces", int64(len(pieces)))
			if c.R.WantSample() && cs.n%37 == 0 {
				c.R.Sample(map[string]interface{}{"method": call.m.Name, "splitlen": cs.splitLen, "text": clipS(call.text), "pieces": clip(pieces)})
			}
		}
	}
	if li != len(lines) {
		c.R.Violate(rig.Violation{Sig: "c11|extra-lines", Detail: fmt.Sprintf("%d unattributed lines after the batch, first %q", len(lines)-li, clipS(lines[li])), Case: pending[len(pending)-1].caseID})
		return false
	}
	return true
}

func clipS(s string) string {
	if len(s) > 120 {
		return s[:60] + fmt.Sprintf("…(%d bytes)…", len(s)) + s[len(s)-40:]
	}
	return s
}

// (the most negative values: arithmetic on SplitLen must not wrap around)
var c11SplitLens = []int{-5, 0, 1, 12, 13, 14, 20, 50, 450, 1000, math.MinInt, math.MinInt + 1, math.MinInt + 2, math.MinInt32, -1}

func c11Text(r interface{ Intn(int) int }, eff int) (string, string) {
	seps := []string{". ", ": ", "; ", ", ", "! ", "? ", "\" ", "' ", " "}
	fill := func(n int, alpha string) string {
		b := make([]byte, n)
		for i := range b {
			b[i] = alpha[r.Intn(len(alpha))]
		}
		return string(b)
	}
	n := []int{0, 1, eff - 1, eff, eff + 1, eff + 2, eff + 5, 2*eff - 3, 2 * eff, 3*eff + 1, eff * 5, 6000}[r.Intn(12)]
	if n < 0 {
		n = 0
	}
	if n > 6000 {
		n = 6000
	}
	switch r.Intn(10) {
	case 9: // one byte class only: UTF-8 continuation bytes, 0xFF, NUL, DEL ... (nothing a rune-aware cut could hold on to)
		b := []string{"\x80\xbf", "\xff", "\x00", "\x7f", "\xbf", "\xc3"}[r.Intn(6)]
		return strings.Repeat(b, n/len(b)+1)[:n], "single-byte-class"
	case 0:
		return fill(n, "abcdefghij"), "nospace"
	case 1:
		return strings.Repeat(" ", n), "onlyspaces"
	case 2: // separator near the cut
		off := eff - 5 + r.Intn(7)
		sep := seps[r.Intn(len(seps))]
		t := fill(n+len(sep), "abcxyz")
		if off >= 0 && off+len(sep) <= len(t) {
			t = t[:off] + sep + t[off+len(sep):]
		}
		return t, "sep-near-cut"
	case 3: // separator at offset 0 / 1
		sep := seps[r.Intn(len(seps))]
		return sep + fill(n, "abc"), "sep-at-0"
	case 4:
		return strings.Repeat("日本é", n/8+1)[:min(n, (n/8+1)*8)], "multibyte"
	case 5:
		t := fill(n, "ab. ")
		return strings.ReplaceAll(t, "ab", "...") + "...", "has-ellipsis"
	case 6: // words and sentences
		var sb strings.Builder
		for sb.Len() < n {
			sb.WriteString(fill(1+r.Intn(9), "abcdefg"))
			sb.WriteString(seps[r.Intn(len(seps))])
		}
		return sb.String(), "prose"
	case 7: // arbitrary bytes without CR/LF
		b := make([]byte, n)
		for i := range b {
			x := byte(r.Intn(256))
			if x == '\r' || x == '\n' {
				x = ' '
			}
			b[i] = x
		}
		return string(b), "bytes"
	default:
		return fill(n, "a ."), "a-space-dot"
	}
}

func runC11(c *Ctx) {
	part, parts := c.ArgInt("part", 0), c.ArgInt("parts", 1)
	switch c.Arg("mode", "") {
	case "exh":
		// all strings over {a, ' ', '.'} of the given lengths at SplitLen 13, each through one method (rotating)
		lo, hi := 14, c.Pick(15, 17)
		cs := c11Open(c, 13)
		if cs == nil {
			return
		}
		alpha := "a ."
		idx := 0
		for L := lo; L <= hi; L++ {
			total := 1
			for i := 0; i < L; i++ {
				total *= 3
			}
			buf := make([]byte, L)
			for k := 0; k < total; k++ {
				if k%parts == part && c.Want("exh", idx) {
					x := k
					for i := 0; i < L; i++ {
						buf[i] = alpha[x%3]
						x /= 3
					}
					m := &c11Methods[k%len(c11Methods)]
					if !cs.call(c, Case("exh", idx), m, string(buf), "exh") {
						cs.close(c)
						return
					}
				}
				idx++
			}
		}
		cs.close(c)
		c.R.Exhaustive[fmt.Sprintf("all texts over {a,space,.} of length %d..%d at SplitLen 13", lo, hi)] = c.Only == ""
	case "conc":
		runC11Conc(c)
	case "prng":
		total := c.Pick(600_000, 12_000_000)
		per := total / parts
		var cs *c11Sess
		cur := -999
		for i := 0; i < per; i++ {
			idx := part*per + i
			if !c.Want("prng", idx) {
				continue
			}
			sl := c11SplitLens[(idx/2000)%len(c11SplitLens)]
			if cs == nil || sl != cur {
				if cs != nil && !cs.close(c) {
					return
				}
				cs = c11Open(c, sl)
				if cs == nil {
					return
				}
				cur = sl
			}
			r := rig.Rand(c.Seed, "C11", "prng", idx)
			eff := sl
			if eff < 13 {
				eff = 450
			}
			text, cls := c11Text(r, eff)
			m := &c11Methods[r.Intn(len(c11Methods))]
			if !cs.call(c, Case("prng", idx), m, text, cls) {
				cs.close(c)
				return
			}
			if idx%97 == 11 && len(text) > 20 {
				// the same text once more right after the split length was changed through Config(): the pieces are
				// cut for the length in force now
				if !cs.flush(c) {
					cs.close(c)
					return
				}
				b := []int{13, 20, 60, 200, 450, 0}[r.Intn(6)]
				if b == sl {
					b = 33
				}
				cs.s.Conn.Config().SplitLen, cs.splitLen = b, b
				okR := cs.call(c, Case("prng", idx), m, text, "resplit-"+cls) && cs.flush(c)
				cs.s.Conn.Config().SplitLen, cs.splitLen = sl, sl
				c.R.Count("texts_sent_again_after_a_split_length_change", 1)
				if !okR {
					cs.close(c)
					return
				}
			}
		}
		if cs != nil {
			cs.close(c)
		}
	}
}

// runC11Conc: several goroutines send split-worthy messages through one
// client at the same time, each to targets of its own; per goroutine the
// wire lines carrying its targets must be exactly its calls' pieces in order.
func runC11Conc(c *Ctx) {
	rounds := c.Pick(30, 400)
	procs := c.Arg("procs", "?")
	for idx := 0; idx < rounds; idx++ {
		if !c.Want("conc", idx) {
			continue
		}
		r := rig.Rand(c.Seed, "C11", "conc", procs, idx)
		sl := []int{13, 20, 50, 450}[r.Intn(4)]
		cs := c11Open(c, sl)
		if cs == nil {
			return
		}
		ng := 2 + r.Intn(7)
		perG := 20 + r.Intn(40)
		c.J.Log("CASE %s goroutines=%d calls=%d sl=%d", Case("conc", idx), ng, perG, sl)
		if r.Intn(2) == 0 {
			cs.mc.Stall(0) // back-pressure: senders block in the middle of a split message
		}
		plans := make([][]c11Call, ng)
		for g := 0; g < ng; g++ {
			rg := rig.Rand(c.Seed, "C11", "concg", procs, idx, g)
			for k := 0; k < perG; k++ {
				text, cls := c11Text(rg, sl)
				if len(text) > 3000 {
					text = text[:3000]
				}
				m := &c11Methods[rg.Intn(len(c11Methods))]
				text = c11Effective(m, text)
				plans[g] = append(plans[g], c11Call{caseID: Case("conc", idx), m: m, target: fmt.Sprintf("#g%d%c", g, "ab"[k%2]), text: text, class: "conc-" + cls})
			}
		}
		done := make(chan struct{})
		go func() {
			var wg sync.WaitGroup
			for g := 0; g < ng; g++ {
				wg.Add(1)
				go func(g int) {
					defer wg.Done()
					for _, call := range plans[g] {
						call.m.Call(cs.s.Conn, call.target, call.text)
					}
				}(g)
			}
			wg.Wait()
			close(done)
		}()
		// let the senders run into the full queue, then read in bursts; the server PINGs meanwhile (the PONGs are
		// one more stream of outgoing lines between the pieces)
		nPings := 0
		for k := 0; k < 200; k++ {
			select {
			case <-done:
			default:
				if r.Intn(3) == 0 {
					cs.mc.SendLine(fmt.Sprintf("PING :c11p%d", nPings))
					nPings++
				}
				cs.mc.Allow(1 + r.Intn(30))
				time.Sleep(time.Duration(20+r.Intn(200)) * time.Microsecond)
				continue
			}
			break
		}
		cs.mc.Resume()
		if !waitCh(done) {
			if cs.mc.Closed() {
				// nothing ended this connection: the client itself gave it up in the middle of the split messages
				c.R.Violate(rig.Violation{Sig: "c11|connection-given-up-while-splitting", Detail: "the client closed the connection while split messages were being written and the server pinged (no fault was injected); the remaining pieces are lost", Case: Case("conc", idx)})
				cs.s.Release()
				if c.R.NumViolations() > 10 {
					return
				}
				continue
			}
			c.R.Inconcl(fmt.Sprintf("%s: senders did not finish", Case("conc", idx)))
			return
		}
		cs.s.Conn.Raw("VSYNC conc")
		// the separator, and every PONG still owed (one may follow the separator)
		sync1 := func(lines []string) bool {
			seen, np := false, 0
			for i := len(lines) - 1; i >= 0 && i >= len(lines)-nPings-2; i-- {
				if lines[i] == "VSYNC conc" {
					seen = true
				}
			}
			if !seen {
				return false
			}
			for _, l := range lines {
				if strings.HasPrefix(l, "PONG :c11p") {
					np++
				}
			}
			return np >= nPings
		}
		if !cs.mc.WaitLines(WaitLong, sync1) {
			if ds := rig.ProveDead(WaitShort); ds.Dead {
				c.R.Violate(rig.Violation{Sig: "c11|lines-lost-with-pings", Detail: "after the senders finished, the separator or some PONGs owed never reached the wire: dead state " + ds.Signature, Case: Case("conc", idx)})
				cs.s.Release()
				continue
			}
			c.R.Inconcl(fmt.Sprintf("%s: separator not seen", Case("conc", idx)))
			return
		}
		all, _ := cs.mc.Take()
		ok := true
		attributed := 0
		pongs := map[string]int{}
		var lines []string
		for _, l := range all {
			if l == "VSYNC conc" {
				continue
			}
			if strings.HasPrefix(l, "PONG :c11p") {
				pongs[l]++
			}
			lines = append(lines, l)
		}
		for _, n := range pongs {
			attributed += n
		}
		for k := 0; k < nPings; k++ {
			if pongs[fmt.Sprintf("PONG :c11p%d", k)] != 1 {
				c.R.Violate(rig.Violation{Sig: "c11|pong-between-pieces", Detail: fmt.Sprintf("PING :c11p%d sent while split messages were being written was answered %d times", k, pongs[fmt.Sprintf("PONG :c11p%d", k)]), Case: Case("conc", idx)})
				ok = false
				break
			}
		}
		c.R.Count("server_pings_between_pieces", int64(nPings))
		for g := 0; g < ng && ok; g++ {
			var mine []string
			ta, tb := fmt.Sprintf(" #g%da :", g), fmt.Sprintf(" #g%db :", g)
			for _, l := range lines {
				if strings.Contains(l[:min(len(l), 24)], ta) || strings.Contains(l[:min(len(l), 24)], tb) {
					mine = append(mine, l)
				}
			}
			attributed += len(mine)
			ok = c11Judge(c, cs, plans[g], mine)
		}
		if ok && attributed != len(lines) {
			c.R.Violate(rig.Violation{Sig: "c11|extra-lines", Detail: fmt.Sprintf("%d of %d wire lines belong to no sender's target", len(lines)-attributed, len(lines)), Case: Case("conc", idx)})
			ok = false
		}
		c.R.Count("concurrent_rounds", 1)
		cs.s.Conn.Close()
		cs.s.Release()
		if !ok && c.R.NumViolations() > 10 {
			return
		}
	}
}
