package props

import (
	"encoding/base64"
	"fmt"
	"sort"
	"strings"
	"sync"
	"time"

	sasl "github.com/emersion/go-sasl"
	"github.com/fluffle/goirc/client"

	"verif/harness/rig"
)

func init() {
	register(&Property{
		ID:    "C19",
		Yield: true,
		Rule: "one negotiation per fresh client against a reactive server; exhaustively: wanted lists over {a,b,c,sasl} (all 16 subsets as configured lists plus lists with duplicates) x SASL {none, PLAIN, EXTERNAL(\"\"), EXTERNAL(id), PLAIN and EXTERNAL with credentials whose base64 contains '+' and '/'} x " +
			"advertised subsets of {a,b,c,sasl,x} (32) x reply {ACK, NAK, ACK then later ACK of '-cap'} x SASL outcome {903, 904, 908}; plus PRNG sets of 50..300 capabilities that force the request to be split over several lines. " +
			"A trace automaton over the wire transcript and SupportsCapability/HasCapability at sync markers checks: the union of CAP REQ arguments equals wanted-and-advertised with no capability twice and no REQ when it is empty, " +
			"HasCapability equals 'latest ACK enabled it', a CAP END exists at quiescence after NAK / ACK not starting SASL / empty intersection / 903 / 904 / 908, no AUTHENTICATE before the server ACKed sasl, credentials only after the server's " +
			"'AUTHENTICATE +', payload = base64 of what the mechanism prescribes. Every fifth SASL case drops the link right after the mechanism line and repeats the whole negotiation on the same client against the same server; every other non-SASL case with SASL configured gets an unasked 'AUTHENTICATE +' (no data may follow); every fourth case ends with a second CAP LS that advertises more (the answering request must be wanted-and-advertised-so-far). A CAP END is required after every reply that does not start SASL (each line of a split request, a later ACK of '-cap') and after the outcome line. Every tenth case reconnects inside a DISCONNECTED handler that stays busy until the new negotiation is over; the configured list is a prefix of a longer array that must stay untouched. A later request naming a held capability is NAKed and must be answered with CAP END; every other 908 comes without a prompt before it. In a quarter of the cases three application goroutines keep calling HasCapability / SupportsCapability while the negotiation runs. y- batches: the same against the schedule-perturbed copy. distinct_nontrivial = distinct (|wanted|, sasl kind, |advertised|, sasl advertised, reply, outcome) cells.",
		Assumptions: []string{"advertisements accumulating across reconnects are outside the stated quantifier: a repeated negotiation always meets the same advertised set", "quiescence = a PING/PONG round trip after the server's last line"},
		Plan: func(tier string, seed int64) []Batch {
			bs := splitBatches("exh", 8, true, 2, map[string]string{"mode": "exh"})
			n := 1
			if tier == "thorough" {
				n = 8
			}
			bs = append(bs, splitBatches("big", n, true, 2, map[string]string{"mode": "big"})...)
			return bs
		},
		Run: runC19,
	})
}

type c19Case struct {
	Wanted     []string // cfg.Capabilites as configured (may contain duplicates)
	Sasl       string   // "none" | "plain" | "ext-empty" | "ext-id"
	Advertised []string
	Reply      string // "ack" | "nak" | "ack-then-minus"
	Outcome    string // "903" | "904" | "908"
}

func (k c19Case) String() string {
	return fmt.Sprintf("wanted=%v sasl=%s advertised=%v reply=%s outcome=%s", k.Wanted, k.Sasl, k.Advertised, k.Reply, k.Outcome)
}

func setOf(l []string) map[string]bool {
	m := map[string]bool{}
	for _, x := range l {
		m[x] = true
	}
	return m
}

func sortedSet(m map[string]bool) []string {
	var l []string
	for k, v := range m {
		if v {
			l = append(l, k)
		}
	}
	sort.Strings(l)
	return l
}

func runC19(c *Ctx) {
	part, parts := c.ArgInt("part", 0), c.ArgInt("parts", 1)
	switch c.Arg("mode", "") {
	case "exh":
		univ := []string{"a", "b", "c", "sasl"}
		var wantedLists [][]string
		for m := 0; m < 16; m++ {
			var l []string
			for i, u := range univ {
				if m&(1<<i) != 0 {
					l = append(l, u)
				}
			}
			wantedLists = append(wantedLists, l)
		}
		wantedLists = append(wantedLists, []string{"a", "a"}, []string{"b", "sasl", "b", "sasl"}, []string{"c", "a", "c"})
		adv := []string{"a", "b", "c", "sasl", "x"}
		idx := 0
		for _, w := range wantedLists {
			for _, sk := range []string{"none", "plain", "ext-empty", "ext-id", "plain-special", "ext-special"} {
				for am := 0; am < 32; am++ {
					var al []string
					for i, u := range adv {
						if am&(1<<i) != 0 {
							al = append(al, u)
						}
					}
					for _, reply := range []string{"ack", "nak", "ack-then-minus"} {
						for _, outcome := range []string{"903", "904", "908"} {
							saslStarts := sk != "none" && setOf(al)["sasl"] && reply != "nak"
							if !saslStarts && outcome != "903" {
								continue // the outcome only matters when SASL starts
							}
							if idx%parts == part && c.Want("exh", idx) {
								if !c19Run(c, "exh", idx, c19Case{w, sk, al, reply, outcome}) {
									return
								}
							}
							idx++
						}
					}
				}
			}
		}
		c.R.Exhaustive["19 wanted lists x 6 SASL configurations x 32 advertised sets x 3 replies x SASL outcomes"] = c.Only == ""
	case "big":
		total := c.Pick(200, 8000)
		per := total / parts
		for i := 0; i < per; i++ {
			idx := part*per + i
			if !c.Want("big", idx) {
				continue
			}
			r := rig.Rand(c.Seed, "C19", "big", idx)
			n := 50 + r.Intn(251)
			var w, a []string
			for k := 0; k < n; k++ {
				name := fmt.Sprintf("cap%03d%s", k, strings.Repeat("x", r.Intn(12)))
				if r.Intn(3) != 0 {
					w = append(w, name)
				}
				if r.Intn(4) != 0 {
					a = append(a, name)
				}
			}
			kase := c19Case{Wanted: w, Sasl: []string{"none", "plain"}[r.Intn(2)], Advertised: a, Reply: []string{"ack", "ack-then-minus", "nak"}[r.Intn(3)], Outcome: "903"}
			if r.Intn(2) == 0 {
				kase.Advertised = append(kase.Advertised, "sasl")
			}
			if !c19Run(c, "big", idx, kase) {
				return
			}
		}
	}
}

func c19Run(c *Ctx, gen string, idx int, k c19Case) bool {
	c.J.Log("CASE %s %s", Case(gen, idx), clipS(k.String()))
	var sc sasl.Client
	wantPayload := ""
	mech := ""
	switch k.Sasl {
	case "plain":
		sc = sasl.NewPlainClient("authz", "user", "pass")
		wantPayload = base64.StdEncoding.EncodeToString([]byte("authz\x00user\x00pass"))
		mech = "PLAIN"
	case "ext-empty":
		sc = sasl.NewExternalClient("")
		wantPayload = "+"
		mech = "EXTERNAL"
	case "ext-id":
		sc = sasl.NewExternalClient("ident1")
		wantPayload = base64.StdEncoding.EncodeToString([]byte("ident1"))
		mech = "EXTERNAL"
	case "plain-special":
		// credentials whose standard base64 form contains '+' and '/'
		sc = sasl.NewPlainClient("", "u~?>", "\xff\xfe>?~")
		wantPayload = base64.StdEncoding.EncodeToString([]byte("\x00u~?>\x00\xff\xfe>?~"))
		mech = "PLAIN"
	case "ext-special":
		sc = sasl.NewExternalClient("~?>\xfb\xff")
		wantPayload = base64.StdEncoding.EncodeToString([]byte("~?>\xfb\xff"))
		mech = "EXTERNAL"
	}
	var backing []string
	s := NewSession(SessionOpts{Flood: true, Mutate: func(cfg *client.Config) {
		cfg.EnableCapabilityNegotiation = true
		// the configured list is a prefix of a longer array that the application keeps using (another client's list,
		// say): the library may read the prefix, the rest is none of its business
		backing = append(append(make([]string, 0, len(k.Wanted)+2), k.Wanted...), "spare-one", "spare-two")
		cfg.Capabilites = backing[:len(k.Wanted)]
		cfg.Sasl = sc
	}})
	defer s.Release()
	conn := s.Conn
	viol := func(kind, detail string) {
		c.R.Violate(rig.Violation{Sig: "c19|" + kind, Detail: detail + " — case: " + clipS(k.String()), Case: Case(gen, idx)})
	}
	mc, err := s.Connect()
	if err != nil {
		c.R.Inconcl("connect: " + err.Error())
		return false
	}
	if idx%4 == 1 {
		// an application that keeps asking what is supported and held while the negotiation runs (three goroutines):
		// its questions must not change any answer
		stopPoll := make(chan struct{})
		var pwg sync.WaitGroup
		defer func() { close(stopPoll); pwg.Wait() }()
		names := append([]string{"sasl", "a", "b", "c", "x"}, k.Wanted...)
		for g := 0; g < 3; g++ {
			pwg.Add(1)
			go func(g int) {
				defer pwg.Done()
				for n := g; ; n++ {
					select {
					case <-stopPoll:
						return
					default:
					}
					if n%2 == 0 {
						conn.HasCapability(names[n%len(names)])
					} else {
						conn.SupportsCapability(names[n%len(names)])
					}
					if n%64 == 0 {
						rig.CallTick()
						runtimeGosched()
					}
				}
			}(g)
		}
		c.R.Count("negotiations_with_polling_application_goroutines", 1)
	}
	disc := make(chan struct{}, 4)
	// in half of the repeated negotiations the reconnect is made inside the DISCONNECTED handler, which then stays
	// busy until the new connection's negotiation is over
	reconnInHandler := idx%10 == 2
	reconnErr := make(chan error, 1)
	release := make(chan struct{})
	var lastHas map[string]bool
	conn.HandleFunc(client.DISCONNECTED, func(cc *client.Conn, l *client.Line) {
		disc <- struct{}{}
		if reconnInHandler {
			reconnInHandler = false
			reconnErr <- cc.Connect()
			<-release
		}
	})
	keepOpen := false
	var negotiate func(mc *rig.MemConn, dropMidSasl bool) (bool, bool)
	negotiate = func(mc *rig.MemConn, dropMidSasl bool) (bool, bool) {
		quiesce := func() bool {
			if !s.WireMarker(mc) {
				ds := rig.ProveDead(WaitShort)
				if ds.Dead {
					viol("negotiation-stuck", "PING after the server's last line was never answered; dead state "+ds.Signature)
				} else {
					c.R.Inconcl(fmt.Sprintf("%s: no PONG (%s)", Case(gen, idx), ds.Reason))
				}
				return false
			}
			return true
		}
		if !AwaitRegistration(mc) || !quiesce() {
			return false, false
		}
		wanted := setOf(k.Wanted)
		if sc != nil {
			wanted["sasl"] = true
		}
		advertised := setOf(k.Advertised)
		inter := map[string]bool{}
		for w := range wanted {
			if advertised[w] {
				inter[w] = true
			}
		}
		mc.SendLine(":srv CAP * LS :" + strings.Join(k.Advertised, " "))
		if !quiesce() {
			return false, false
		}
		// Supports == advertised
		for _, a := range append(append([]string{}, k.Advertised...), "x", "never") {
			if got := conn.SupportsCapability(a); got != advertised[a] {
				viol("supports", fmt.Sprintf("SupportsCapability(%q) = %v after LS", a, got))
				break
			}
		}
		capLines := func() (reqs [][]string, ends int, auth []string, all []string) {
			for _, l := range mc.Lines() {
				switch {
				case strings.HasPrefix(l, "CAP REQ"):
					arg := strings.TrimPrefix(strings.TrimPrefix(l, "CAP REQ"), " ")
					arg = strings.TrimPrefix(arg, ":")
					reqs = append(reqs, strings.Fields(arg))
					all = append(all, l)
				case l == "CAP END":
					ends++
					all = append(all, l)
				case strings.HasPrefix(l, "AUTHENTICATE "):
					auth = append(auth, strings.TrimPrefix(l, "AUTHENTICATE "))
					all = append(all, l)
				case strings.HasPrefix(l, "CAP "):
					all = append(all, l)
				}
			}
			return
		}
		endSince := func(from int) bool {
			ls := mc.Lines()
			for i := from; i < len(ls); i++ {
				if ls[i] == "CAP END" {
					return true
				}
			}
			return false
		}
		reqs, ends, auth, _ := capLines()
		// 1. requested == wanted ∩ advertised
		reqSet := map[string]int{}
		for _, rq := range reqs {
			for _, x := range rq {
				reqSet[x]++
			}
		}
		var reqNames []string
		for x, n := range reqSet {
			reqNames = append(reqNames, x)
			if n > 1 {
				viol("requested-twice", fmt.Sprintf("capability %q requested %d times", x, n))
			}
		}
		sort.Strings(reqNames)
		if strings.Join(reqNames, " ") != strings.Join(sortedSet(inter), " ") {
			viol("requested-set", fmt.Sprintf("requested %v, wanted-and-advertised is %v", clip(reqNames), clip(sortedSet(inter))))
		}
		for _, l := range mc.Lines() {
			if strings.HasPrefix(l, "CAP REQ") && len(l) > 510 {
				viol("request-too-long", fmt.Sprintf("a CAP REQ line is %d bytes long", len(l)))
			}
		}
		if len(auth) > 0 {
			viol("authenticate-early", "AUTHENTICATE sent before the server acknowledged sasl")
		}
		if len(inter) == 0 {
			if len(reqs) != 0 {
				viol("req-on-empty", "CAP REQ sent although nothing is both wanted and advertised")
			}
			if ends < 1 {
				viol("no-end", "no CAP END on an empty intersection")
			}
			c19Done(c, gen, idx, k, conn, "empty")
			return true, false
		}
		if ends != 0 {
			viol("end-early", "CAP END sent together with the request")
		}
		// 2. the server's reply, per request line
		has := map[string]bool{}
		saslStarted := false
		switch k.Reply {
		case "nak":
			for _, rq := range reqs {
				fromR := mc.NumLines()
				mc.SendLine(":srv CAP * NAK :" + strings.Join(rq, " "))
				if !quiesce() {
					return false, false
				}
				if !endSince(fromR) {
					viol("no-end", fmt.Sprintf("no CAP END in answer to the NAK of request line %q (one of %d)", clipS(strings.Join(rq, " ")), len(reqs)))
				}
			}
		default:
			for _, rq := range reqs {
				// the server may list the acknowledged capabilities in any order
				ack := append([]string(nil), rq...)
				switch idx % 3 {
				case 1:
					for i, j := 0, len(ack)-1; i < j; i, j = i+1, j-1 {
						ack[i], ack[j] = ack[j], ack[i]
					}
				case 2:
					if len(ack) > 1 {
						ack = append(ack[1:], ack[0])
					}
				}
				fromR := mc.NumLines()
				mc.SendLine(":srv CAP * ACK :" + strings.Join(ack, " "))
				startsSasl := false
				for _, x := range rq {
					has[x] = true
					if x == "sasl" && sc != nil {
						saslStarted = true
						startsSasl = true
					}
				}
				if !startsSasl {
					// every acknowledgement that does not start SASL is answered with CAP END, also the second of two
					if !quiesce() {
						return false, false
					}
					if !endSince(fromR) {
						viol("no-end", fmt.Sprintf("no CAP END in answer to the ACK of request line %q (one of %d) that does not start SASL", clipS(strings.Join(rq, " ")), len(reqs)))
					}
				}
			}
		}
		if !quiesce() {
			return false, false
		}
		_, ends, auth, _ = capLines()
		if saslStarted {
			if len(reqs) == 1 && ends != 0 {
				viol("end-before-sasl-outcome", "CAP END was sent although the acknowledgement started SASL authentication and no outcome has arrived yet")
			}
			if len(auth) != 1 || auth[0] != mech {
				viol("mechanism-line", fmt.Sprintf("after ACK of sasl the client sent AUTHENTICATE %v, want exactly [%s] (credentials only after the server's '+')", auth, mech))
			}
			if dropMidSasl {
				// the link drops in the middle of the SASL exchange; the same client then connects again and the whole
				// negotiation runs once more against the same server
				mc.SendEOF()
				if !waitCh(chanOf(disc)) {
					c.R.Inconcl(fmt.Sprintf("%s: no DISCONNECTED after the link dropped mid-SASL", Case(gen, idx)))
					return false, false
				}
				return true, true
			}
			// (a server that rejects the mechanism does so at once: every other 908 comes without a prompt before it)
			if !(k.Outcome == "908" && idx%2 == 0) {
				mc.SendLine("AUTHENTICATE +")
				if !quiesce() {
					return false, false
				}
				_, _, auth, _ = capLines()
				if len(auth) != 2 || auth[1] != wantPayload {
					viol("sasl-payload", fmt.Sprintf("AUTHENTICATE lines %v, want [%s %s]", auth, mech, wantPayload))
				}
			}
			fromO := mc.NumLines()
			switch k.Outcome {
			case "903":
				mc.SendLine(":srv 903 me :SASL authentication successful")
			case "904":
				mc.SendLine(":srv 904 me :SASL authentication failed")
			case "908":
				mc.SendLine(":srv 908 me PLAIN,EXTERNAL :are available SASL mechanisms")
			}
			if !quiesce() {
				return false, false
			}
			_, ends, _, _ = capLines()
			if ends < 1 || !endSince(fromO) {
				viol("no-end", fmt.Sprintf("no CAP END after SASL outcome %s", k.Outcome))
			}
		} else {
			if len(auth) != 0 {
				viol("authenticate-unasked", fmt.Sprintf("AUTHENTICATE %v sent although SASL was not started (reply %s)", auth, k.Reply))
			}
			if ends < 1 {
				viol("no-end", fmt.Sprintf("no CAP END after %s", k.Reply))
			}
			if sc != nil && idx%2 == 1 {
				// a server that prompts for SASL data although it never acknowledged sasl gets none
				mc.SendLine("AUTHENTICATE +")
				if !quiesce() {
					return false, false
				}
				if _, _, auth, _ = capLines(); len(auth) != 0 {
					viol("sasl-data-without-ack", fmt.Sprintf("AUTHENTICATE %v sent in answer to a prompt although the server never acknowledged sasl (reply %s, sasl advertised: %v)", auth, k.Reply, advertised["sasl"]))
				}
			}
		}
		if k.Reply == "ack-then-minus" {
			var names []string
			for x := range has {
				names = append(names, x)
			}
			sort.Strings(names)
			if len(names) > 0 {
				off := names[0]
				fromM := mc.NumLines()
				mc.SendLine(":srv CAP * ACK :-" + off)
				has[off] = false
				if !quiesce() {
					return false, false
				}
				if !endSince(fromM) {
					viol("no-end", "no CAP END in answer to a later ACK that switches a capability off")
				}
			}
		}
		// a later request naming a held capability together with one the server refuses is NAKed as a whole:
		// a NAK acknowledges nothing, what is held stays held
		if idx%2 == 0 {
			var held []string
			for x, on := range has {
				if on {
					held = append(held, x)
				}
			}
			sort.Strings(held)
			if len(held) > 0 {
				conn.Cap("REQ", held[0], "never-supported")
				mc.WaitLineFrom(WaitLong, 0, func(l string) bool { return strings.HasPrefix(l, "CAP REQ") && strings.Contains(l, "never-supported") })
				fromN := mc.NumLines()
				mc.SendLine(":srv CAP * NAK :" + held[0] + " never-supported")
				if !quiesce() {
					return false, false
				}
				if !endSince(fromN) {
					viol("no-end", fmt.Sprintf("no CAP END in answer to the NAK of a later request (SASL: %s, outcome %s, sasl started: %v)", k.Sasl, k.Outcome, saslStarted))
				}
			}
		}
		// 3. HasCapability == latest ACK enabled it
		probe := append(append([]string{}, sortedSet(wanted)...), k.Advertised...)
		probe = append(probe, "x", "never")
		for _, x := range probe {
			if got := conn.HasCapability(x); got != has[x] {
				viol("has", fmt.Sprintf("HasCapability(%q) = %v, the server's latest acknowledgement says %v", x, got, has[x]))
				break
			}
		}
		if idx%4 == 1 {
			// the server lists its capabilities once more, now with more of them: the request that answers it names
			// what is wanted and advertised (so far), nothing else and nothing less
			adv2 := append([]string{}, k.Advertised...)
			for _, w := range sortedSet(wanted) {
				if !advertised[w] {
					adv2 = append(adv2, w)
				}
			}
			adv2 = append(adv2, "y")
			from2 := mc.NumLines()
			mc.SendLine(":srv CAP * LS :" + strings.Join(adv2, " "))
			if !quiesce() {
				return false, false
			}
			got2 := map[string]bool{}
			ends2 := 0
			for _, l := range mc.Lines()[from2:] {
				if strings.HasPrefix(l, "CAP REQ") {
					for _, x := range strings.Fields(strings.TrimPrefix(strings.TrimPrefix(strings.TrimPrefix(l, "CAP REQ"), " "), ":")) {
						got2[x] = true
					}
				}
				if l == "CAP END" {
					ends2++
				}
			}
			want2 := map[string]bool{}
			for w := range wanted {
				if advertised[w] || setOf(adv2)[w] {
					want2[w] = true
				}
			}
			if strings.Join(sortedSet(got2), " ") != strings.Join(sortedSet(want2), " ") {
				viol("second-ls-requested-set", fmt.Sprintf("after a second CAP LS advertising %v the client requested %v, wanted-and-advertised is %v", clip(adv2), clip(sortedSet(got2)), clip(sortedSet(want2))))
			}
			if len(want2) == 0 && ends2 < 1 {
				viol("no-end", "no CAP END after a second CAP LS with an empty intersection")
			}
			if len(got2) > 0 {
				mc.SendLine(":srv CAP * NAK :" + strings.Join(sortedSet(got2), " "))
				if !quiesce() {
					return false, false
				}
			}
		}
		lastHas = has
		c19DoneOpt(c, gen, idx, k, conn, fmt.Sprintf("sasl-started=%v", saslStarted), keepOpen)
		return true, false
	}
	ok, dropped := negotiate(mc, idx%5 == 2)
	if ok && dropped {
		var mc2 *rig.MemConn
		var err error
		held := idx%10 == 2
		if held {
			done := make(chan struct{})
			go func() { err = <-reconnErr; close(done) }()
			if !waitCh(done) {
				c.R.Inconcl(fmt.Sprintf("%s: the DISCONNECTED handler never reconnected", Case(gen, idx)))
				close(release)
				return false
			}
			mc2 = s.EP.Last()
		} else {
			mc2, err = s.Connect()
		}
		if err != nil {
			viol("reconnect-after-dropped-sasl", "Connect after the link dropped mid-SASL failed: "+err.Error())
			if held {
				close(release)
			}
			return true
		}
		c.R.Count("negotiations_repeated_after_a_drop_mid_sasl", 1)
		keepOpen = held
		ok, _ = negotiate(mc2, false)
		if held {
			// the old connection's teardown finishes only now: what the new connection negotiated stays as it is
			close(release)
			time.Sleep(2 * time.Millisecond)
			if ok && s.WireMarker(mc2) {
				for x, on := range lastHas {
					if got := conn.HasCapability(x); got != on {
						viol("has-after-old-teardown", fmt.Sprintf("HasCapability(%q) = %v once the previous connection's DISCONNECTED handler (which had reconnected) returned; the new connection's latest acknowledgement says %v", x, got, on))
						break
					}
				}
				c.R.Count("negotiations_inside_a_disconnected_handler", 1)
			}
			go conn.Close()
		}
	}
	if len(backing) >= len(k.Wanted)+2 {
		full := backing[:len(k.Wanted)+2]
		if full[len(k.Wanted)] != "spare-one" || full[len(k.Wanted)+1] != "spare-two" || strings.Join(full[:len(k.Wanted)], " ") != strings.Join(k.Wanted, " ") {
			viol("configured-list-overwritten", fmt.Sprintf("the array behind Config.Capabilites was %q (the configured list being its first %d elements) and is %q after the negotiation: whoever else uses that array now wants something else", append(append([]string{}, k.Wanted...), "spare-one", "spare-two"), len(k.Wanted), full))
		}
	}
	return ok
}

func c19Done(c *Ctx, gen string, idx int, k c19Case, conn *client.Conn, note string) {
	c19DoneOpt(c, gen, idx, k, conn, note, false)
}

func c19DoneOpt(c *Ctx, gen string, idx int, k c19Case, conn *client.Conn, note string, keepOpen bool) {
	c.R.Eval(1)
	wb := len(setOf(k.Wanted))
	if wb > 5 {
		wb = 50
	}
	ab := len(k.Advertised)
	if ab > 6 {
		ab = 60
	}
	c.R.Class(fmt.Sprintf("w%d|%s|a%d|sasl-adv=%v|%s|%s", wb, k.Sasl, ab, setOf(k.Advertised)["sasl"], k.Reply, k.Outcome))
	if idx%997 == 0 {
		c.R.Sample(map[string]interface{}{"case": clipS(k.String()), "note": note})
	}
	if !keepOpen {
		go conn.Close()
	}
}
