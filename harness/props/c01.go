package props

import (
	"fmt"
	"reflect"
	"strings"
	"sync"
	"time"

	"github.com/fluffle/goirc/client"

	"verif/harness/model"
	"verif/harness/rig"
)

func init() {
	register(&Property{
		ID: "C01",
		Rule: "messages are built from generator-owned components (tags/source/verb/middles/trailing/CTCP) by an exhaustive product over small pools " +
			"and by a PRNG grammar; the expectation is derived from the components, never from the parser; compared field by field with ParseLine's result, " +
			"with Text/Target/Public, and with the line a foreground handler receives over an in-memory connection; a concurrent batch runs the same comparison from 8 goroutines under the race detector. A case is non-trivial/distinct by its " +
			"Parameter, trailing and tag-value alphabets include bytes that are not valid UTF-8 (latin-1, 0xff, lone continuation and lead bytes). A third of the wire sessions follow an RPL_ISUPPORT announcement (restrictive CHANTYPES, LINELEN ...), another third follow one made on an earlier, ended connection of the same client. Half of the wire sessions end with the stream cut inside a message (nothing of the fragment may reach a handler). (tag-shape, source-kind, verb-kind, arity bucket, trailing-shape, CTCP-kind, spacing) class; distinct_nontrivial counts the classes seen.",
		Assumptions: []string{
			"well-formedness as delimited by the property's quantifier (single space after tags/source, U+0020 as the only white space, CTCP payload VERB SP text)",
			"nil and empty Args are treated as equal; Time is ignored",
		},
		Plan: func(tier string, seed int64) []Batch {
			var bs []Batch
			bs = append(bs, Batch{Name: "product", Args: map[string]string{"mode": "product"}})
			n := 8
			if tier == "thorough" {
				n = 14
			}
			bs = append(bs, splitBatches("prng", n, false, 1, map[string]string{"mode": "prng"})...)
			for i := 0; i < 4; i++ {
				bs = append(bs, Batch{Name: fmt.Sprintf("wire-%d", i), Args: map[string]string{"mode": "wire", "part": fmt.Sprint(i), "parts": "4"}, Race: true, Procs: 4})
			}
			// several parsers at once (a process may hold several connections, each with its own receive goroutine)
			bs = append(bs, Batch{Name: "conc", Args: map[string]string{"mode": "conc"}, Race: true, Procs: 8, Weight: 4})
			bs = append(bs, Batch{Name: "wire-quiet", Args: map[string]string{"mode": "wire", "quiet": "1", "part": "0", "parts": "1"}, Race: true, Procs: 2})
			return bs
		},
		RaceClaim: func(rep string) bool {
			return raceBothIn(rep, "client.ParseLine", "client.parseUserHost", "client.(*Line)")
		},
		Run: runC01,
	})
}

// compareLine returns "" or (field, shape, detail) of the first difference.
func compareLine(e *model.Expect, l *client.Line, judgeAccessors bool) (field, shape, detail string) {
	if l == nil {
		return "nil", "", "parser rejected a well-formed message"
	}
	if e.HasTags != (l.Tags != nil) {
		return "Tags", "presence", fmt.Sprintf("tag map present=%v, want %v", l.Tags != nil, e.HasTags)
	}
	if e.HasTags {
		for k, v := range e.Tags {
			got, ok := l.Tags[k]
			if !ok {
				return "Tags", "missing-key", fmt.Sprintf("tag %q missing", k)
			}
			if got != v {
				return "Tags", "value", fmt.Sprintf("tag %q = %q, want %q", k, got, v)
			}
		}
		if len(l.Tags) != len(e.Tags) {
			return "Tags", "extra-key", fmt.Sprintf("tags %v, want %v", l.Tags, e.Tags)
		}
	}
	for _, f := range []struct{ n, got, want string }{
		{"Src", l.Src, e.Src}, {"Nick", l.Nick, e.Nick}, {"Ident", l.Ident, e.Ident}, {"Host", l.Host, e.Host},
		{"Cmd", l.Cmd, e.Cmd}, {"Raw", l.Raw, e.Raw},
	} {
		if f.got != f.want {
			return f.n, "", fmt.Sprintf("%s = %q, want %q", f.n, f.got, f.want)
		}
	}
	if len(l.Args) != len(e.Args) {
		return "Args", "len", fmt.Sprintf("Args = %q, want %q", l.Args, e.Args)
	}
	for i := range e.Args {
		if l.Args[i] != e.Args[i] {
			return "Args", "elem", fmt.Sprintf("Args[%d] = %q, want %q", i, l.Args[i], e.Args[i])
		}
	}
	if judgeAccessors {
		if got := l.Text(); got != e.Text {
			return "Text()", "", fmt.Sprintf("Text() = %q, want %q", got, e.Text)
		}
		if e.JudgeTP {
			if got := l.Public(); got != e.Public {
				return "Public()", "", fmt.Sprintf("Public() = %v, want %v", got, e.Public)
			}
			if got := l.Target(); got != e.Target {
				return "Target()", "", fmt.Sprintf("Target() = %q, want %q", got, e.Target)
			}
		}
	}
	return "", "", ""
}

func c01Check(c *Ctx, gen string, idx int, m *model.Msg) {
	e := m.Expected()
	c.R.Eval(1)
	c.R.Class(e.Class)
	var l *client.Line
	var pv interface{}
	rig.CallTick()
	func() {
		defer func() { pv = recover() }()
		l = client.ParseLine(e.Raw)
		if f, s, d := compareLine(e, l, true); f != "" {
			c.R.Violate(rig.Violation{
				Sig:     "parse-mismatch|" + f + "|" + s,
				Detail:  fmt.Sprintf("ParseLine(%q): %s", e.Raw, d),
				Case:    Case(gen, idx),
				Witness: map[string]interface{}{"raw": e.Raw, "components": m},
			})
		}
	}()
	if pv != nil {
		c.R.Violate(rig.Violation{
			Sig:     "parse-panic|" + panicClass(pv),
			Detail:  fmt.Sprintf("ParseLine/accessors panicked on well-formed %q: %v", e.Raw, pv),
			Case:    Case(gen, idx),
			Witness: map[string]interface{}{"raw": e.Raw},
		})
	}
	if idx%5003 == 0 && c.R.WantSample() {
		c.R.Sample(map[string]interface{}{"raw": e.Raw, "expect_cmd": e.Cmd, "expect_args": e.Args, "expect_tags": e.Tags, "class": e.Class})
	}
}

func panicClass(v interface{}) string {
	s := fmt.Sprint(v)
	s = digitsRe.ReplaceAllString(s, "N")
	if len(s) > 80 {
		s = s[:80]
	}
	return s
}

func runC01(c *Ctx) {
	switch c.Arg("mode", "") {
	case "product":
		maxLen := 3
		idx := 0
		n := model.ProductMsgs(maxLen, func(m *model.Msg) {
			if c.Want("product", idx) {
				c01Check(c, "product", idx, m)
			}
			idx++
		})
		c.R.Count("product_messages", int64(n))
		c.R.Exhaustive["product(3 tag sections x 5 sources x 6 verbs x middle lists<=3 over 7 x 6 trailings + CTCP forms)"] = c.Only == ""
	case "prng":
		part, parts := c.ArgInt("part", 0), c.ArgInt("parts", 1)
		total := c.Pick(2_400_000, 40_000_000)
		per := total / parts
		for i := 0; i < per; i++ {
			idx := part*per + i
			if !c.Want("prng", idx) {
				continue
			}
			r := rig.Rand(c.Seed, "C01", "prng", idx)
			c01Check(c, "prng", idx, model.RandMsg(r))
		}
	case "wire":
		runC01Wire(c)
	case "conc":
		// the same differential check from 8 goroutines at once, under the race detector
		per := c.Pick(40_000, 600_000)
		var wg sync.WaitGroup
		for g := 0; g < 8; g++ {
			wg.Add(1)
			go func(g int) {
				defer wg.Done()
				for i := 0; i < per; i++ {
					idx := g*per + i
					r := rig.Rand(c.Seed, "C01", "conc", idx)
					m := model.RandMsg(r)
					if !m.HasTags && i%2 == 0 {
						m.HasTags = true
						m.Tags = []model.Tag{{Key: fmt.Sprintf("k%d", g), Value: fmt.Sprintf("v\\%d;x y", idx), Form: 2}}
					}
					c01Check(c, "conc", idx, m)
				}
			}(g)
		}
		wg.Wait()
		c.R.Count("concurrent_parses", int64(8*per))
	}
}

// runC01Wire sends messages through a live in-memory connection and
// compares what a foreground handler for the verb receives.
func runC01Wire(c *Ctx) {
	total := c.Pick(12_000, 400_000)
	sessLen := 500
	part, parts := c.ArgInt("part", 0), c.ArgInt("parts", 1)
	// "quiet" sessions: client pings every 20 ms, and each message arrives in two segments separated by a
	// silence longer than that (a client that guards its reads with a keep-alive deadline must still reassemble it)
	quiet := c.Arg("quiet", "") == "1"
	if quiet {
		total, sessLen = c.Pick(60, 600), 30
	}
	for base := 0; base < total; base += sessLen {
		if (base/sessLen)%parts != part {
			continue
		}
		so := SessionOpts{Flood: true}
		if quiet {
			so.PingFreq = 20 * time.Millisecond
		}
		s := NewSession(so)
		mc, err := s.Connect()
		if err != nil {
			c.R.Inconcl("connect failed: " + err.Error())
			return
		}
		// a third of the sessions talk to a server that announces its parameters (RPL_ISUPPORT) first; another third
		// does so on a connection of the same client that has ended before this one began
		switch sn := base / sessLen; sn % 3 {
		case 1:
			if !s.Isupport(mc, sn/3) {
				c.R.Inconcl("005 not processed")
				return
			}
			c.R.Count("wire_sessions_after_isupport", 1)
		case 2:
			if !s.Isupport(mc, sn/3) || !CloseWatched(s.Conn) {
				c.R.Inconcl("005 / close before the session proper failed")
				return
			}
			if mc, err = s.Connect(); err != nil {
				c.R.Inconcl("second connect failed: " + err.Error())
				return
			}
			c.R.Count("wire_sessions_after_isupport_on_an_earlier_connection", 1)
		}
		var got []*client.Line
		registered := map[string]bool{}
		handler := func(_ *client.Conn, l *client.Line) {
			s.mu.Lock()
			got = append(got, l)
			s.mu.Unlock()
		}
		bad := false
		for i := 0; i < sessLen && base+i < total && !bad; i++ {
			idx := base + i
			if !c.Want("wire", idx) {
				continue
			}
			r := rig.Rand(c.Seed, "C01", "wire", idx)
			var m *model.Msg
			for {
				m = model.RandMsg(r)
				up := strings.ToUpper(m.Verb)
				if up == "REGISTER" || up == "CONNECTED" || up == "DISCONNECTED" || up == "VMARK" {
					continue
				}
				break
			}
			if r.Intn(40) == 0 && m.HasTrail && !m.CTCP {
				// longer than the client's 4096-byte read buffer
				m.Trail += " " + strings.Repeat("L", []int{4000, 4096, 5000, 20000}[r.Intn(4)])
			}
			e := m.Expected()
			c.J.Log("CASE %s %q", Case("wire", idx), clipS(e.Raw))
			key := strings.ToLower(e.Cmd)
			if !registered[key] {
				registered[key] = true
				s.Conn.HandleFunc(e.Cmd, handler)
			}
			s.mu.Lock()
			got = got[:0]
			s.mu.Unlock()
			// choose a segmentation
			b := []byte(e.Raw + "\r\n")
			if quiet {
				cut := 1 + r.Intn(len(b)-1)
				time.Sleep(25 * time.Millisecond) // the link has been silent for longer than PingFreq
				mc.SendBytes(b[:cut])
				time.Sleep(30 * time.Millisecond)
				mc.SendBytes(b[cut:])
				c.R.Count("wire_messages_across_a_silence", 1)
			} else {
				switch r.Intn(3) {
				case 0:
					mc.SendBytes(b)
				case 1:
					mc.SendSegmented(b, []int{1 + r.Intn(len(b))})
				default:
					var cuts []int
					for k := 1; k < len(b); k += 1 + r.Intn(7) {
						cuts = append(cuts, k)
					}
					mc.SendSegmented(b, cuts)
				}
			}
			if !s.FgMarker(mc) {
				c.R.Inconcl(fmt.Sprintf("%s: marker not reached after %q", Case("wire", idx), e.Raw))
				bad = true
				break
			}
			c.R.Eval(1)
			c.R.Class("wire|" + e.Class)
			c.R.Count("wire_messages", 1)
			s.mu.Lock()
			lines := append([]*client.Line(nil), got...)
			s.mu.Unlock()
			if len(lines) != 1 {
				c.R.Violate(rig.Violation{
					Sig:     fmt.Sprintf("wire-delivery|count=%d", min(len(lines), 2)),
					Detail:  fmt.Sprintf("handler for %s received %d lines for one message %q", e.Cmd, len(lines), e.Raw),
					Case:    Case("wire", idx),
					Witness: map[string]interface{}{"raw": e.Raw},
				})
				continue
			}
			var pv interface{}
			func() {
				defer func() { pv = recover() }()
				if f, sh, d := compareLine(e, lines[0], true); f != "" {
					c.R.Violate(rig.Violation{
						Sig:     "wire-mismatch|" + f + "|" + sh,
						Detail:  fmt.Sprintf("handler for %s got a line that differs from what was sent %q: %s", e.Cmd, e.Raw, d),
						Case:    Case("wire", idx),
						Witness: map[string]interface{}{"raw": e.Raw, "got": fmt.Sprintf("%+v", *lines[0])},
					})
				}
				// also: equal to the direct parse
				if d := client.ParseLine(e.Raw); d != nil {
					d.Time = lines[0].Time
					if len(d.Args) == 0 && len(lines[0].Args) == 0 {
						d.Args = lines[0].Args
					}
					if !reflect.DeepEqual(d, lines[0]) {
						c.R.Violate(rig.Violation{
							Sig:     "wire-vs-direct",
							Detail:  fmt.Sprintf("handler's line %+v differs from ParseLine's %+v for %q", *lines[0], *d, e.Raw),
							Case:    Case("wire", idx),
							Witness: map[string]interface{}{"raw": e.Raw},
						})
					}
				}
			}()
			if pv != nil {
				c.R.Violate(rig.Violation{Sig: "parse-panic|" + panicClass(pv), Detail: fmt.Sprintf("accessor panic on delivered line for %q: %v", e.Raw, pv), Case: Case("wire", idx)})
			}
		}
		if !bad && (base/sessLen)%2 == 0 {
			// the link dies in the middle of a message: the piece that arrived is no message, nothing may be delivered
			s.mu.Lock()
			got = nil
			s.mu.Unlock()
			s.Conn.HandleFunc("FRAG", handler)
			disc := make(chan struct{}, 1)
			s.Conn.HandleFunc(client.DISCONNECTED, func(_ *client.Conn, l *client.Line) { disc <- struct{}{} })
			frag := "@k=v :nick!user@host.example FRAG #chan :a message the link cut sh"
			mc.SendBytes([]byte(frag[:len(frag)-(base/sessLen)%40]))
			mc.SendEOF()
			if waitCh(chanOf(disc)) {
				s.mu.Lock()
				if len(got) > 0 {
					c.R.Violate(rig.Violation{Sig: "wire-fragment-delivered", Detail: fmt.Sprintf("the stream ended inside a message; a handler was given the line %q, which was never sent", got[0].Raw), Case: Case("wire", base)})
				}
				s.mu.Unlock()
				c.R.Count("wire_sessions_cut_inside_a_message", 1)
			}
		} else {
			s.Conn.Close()
		}
		s.Release()
		if bad {
			return
		}
	}
}
