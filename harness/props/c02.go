package props

import (
	"fmt"
	"runtime"
	"strings"
	"sync"
	"time"

	"github.com/fluffle/goirc/client"

	"verif/harness/model"
	"verif/harness/rig"
)

var c02Symbols = []string{
	"@", ":", " ", "!", ";", "=", "\\", "\x01", "#", "a", "1",
	"PRIVMSG", "NOTICE", "ACTION", "CTCP", "CTCPREPLY", "PING", "001", "433", "NICK", "CAP", "410",
	"AUTHENTICATE", "903", "904", "908", "JOIN", "KICK", "MODE", "PART", "QUIT", "TOPIC",
	"311", "324", "332", "352", "353", "671", "VERSION",
}

func init() {
	register(&Property{
		ID: "C02",
		Rule: "stage A: every string up to length L over 39 symbols (11 special bytes + 28 verb tokens) and PRNG mutations of well-formed lines go through ParseLine + Text/Target/Public " +
			"under recover (a panic there kills the receive goroutine), then Go's native coverage-guided fuzzer on the same target for a fixed execution count, recording every panic site instead of stopping at the first; stage B: child processes feed probes (every built-in handler verb x 0..8 odd parameters, raw byte strings) " +
			"through a live connection with tracking on and off, each followed by numbered well-formed lines and a marker; judged: process survival (crash journal), marker answered, " +
			"numbered lines in order, and probe either logged as rejected or dispatched exactly once to a handler for its verb. Live probes also include lines shaped after what the built-in and state handlers expect (CAP, 353, 352, MODE, 324/332/311/671, membership verbs, registration numerics, CTCP) with hostile tokens in the slots they index, parameters of 1024 / ~4096 / ~8192 / 20000 bytes, and bursts of 30..120 well-formed lines behind a slow handler. Tracked sessions start on two channels with different members; the numbered lines also have a background handler. distinct_nontrivial = distinct (stage, verb, arity, parameter-shape / parser outcome) classes.",
		Assumptions: []string{
			"a handler panic swallowed by cfg.Recover is not a violation (counted as recovered_handler_panics)",
			"a panic inside ParseLine or the accessors is judged in-process under recover: on the receive goroutine it would be fatal",
		},
		Plan: func(tier string, seed int64) []Batch {
			var bs []Batch
			bs = append(bs, splitBatches("exh", 13, false, 1, map[string]string{"mode": "exh"})...)
			n := 8
			if tier == "thorough" {
				n = 12
			}
			bs = append(bs, splitBatches("mut", n, false, 1, map[string]string{"mode": "mut"})...)
			execs := "300000"
			if tier == "thorough" {
				execs = "20000000"
			}
			bs = append(bs, Batch{Name: "gofuzz", Kind: "gofuzz", Weight: 6, Args: map[string]string{"pkg": "fuzzc02", "target": "FuzzParseLine", "execs": execs, "parallel": "6"}})
			// one live batch without the race detector, under a hard address-space limit (see worker.go)
			bs = append(bs, Batch{Name: "live-norace", Args: map[string]string{"mode": "live", "tracking": "1", "salt": "nr"}, Race: false, Procs: 4})
			for _, tr := range []string{"0", "1"} {
				for _, procs := range []int{1, 4} {
					bs = append(bs, Batch{Name: fmt.Sprintf("live-t%s-p%d", tr, procs), Args: map[string]string{"mode": "live", "tracking": tr}, Race: true, Procs: procs})
				}
			}
			return bs
		},
		Run: runC02,
	})
}

// topLibFrame returns the innermost goirc function on the current stack
// (called from a deferred function during panicking).
func topLibFrame() string {
	var pcs [48]uintptr
	n := runtime.Callers(2, pcs[:])
	fr := runtime.CallersFrames(pcs[:n])
	for {
		f, more := fr.Next()
		if strings.Contains(f.Function, "fluffle/goirc/") {
			return f.Function[strings.LastIndex(f.Function, "/")+1:]
		}
		if !more {
			return "?"
		}
	}
}

// c02Direct runs the parser and accessors on s; returns the outcome class.
func c02Direct(c *Ctx, gen string, idx int, s string) string {
	var l *client.Line
	site := ""
	var pv interface{}
	stage := "ParseLine"
	rig.CallTick()
	func() {
		defer func() {
			if pv = recover(); pv != nil {
				site = topLibFrame()
			}
		}()
		l = client.ParseLine(s)
		if l != nil {
			stage = "Text"
			_ = l.Text()
			stage = "Public"
			_ = l.Public()
			stage = "Target"
			_ = l.Target()
		}
	}()
	c.R.Eval(1)
	if pv != nil {
		c.R.Violate(rig.Violation{
			Sig:     "panic|" + site + "|" + panicClass(pv),
			Detail:  fmt.Sprintf("%s panicked in %s on input %q: %v", stage, site, s, pv),
			Case:    Case(gen, idx),
			Witness: map[string]interface{}{"input": s, "stage": stage},
		})
		return "panic"
	}
	if l == nil {
		return "rejected"
	}
	return "parsed"
}

func runC02(c *Ctx) {
	switch c.Arg("mode", "") {
	case "exh":
		runC02Exh(c)
	case "mut":
		runC02Mut(c)
	case "live":
		runC02Live(c)
	}
}

func runC02Exh(c *Ctx) {
	L := c.Pick(4, 5)
	part, parts := c.ArgInt("part", 0), c.ArgInt("parts", 1)
	syms := c02Symbols
	n := len(syms)
	idx := 0
	var cur []int
	outcomes := map[string]int64{}
	var rec func(depth int)
	rec = func(depth int) {
		if depth > 0 {
			// only this part's share of first symbols
			if cur[0]%parts == part {
				if c.Want("exh", idx) {
					var b strings.Builder
					for _, k := range cur {
						b.WriteString(syms[k])
					}
					s := b.String()
					o := c02Direct(c, "exh", idx, s)
					outcomes[fmt.Sprintf("A|%s|len%d|first=%q", o, depth, syms[cur[0]])]++
					if idx%200003 == 0 {
						c.R.Sample(map[string]string{"stage": "A-exhaustive", "input": s, "outcome": o})
					}
				}
			}
			idx++
		}
		if depth == L {
			return
		}
		for k := 0; k < n; k++ {
			if depth == 0 && k%parts != part {
				// still advance idx consistently: count the subtree size
				sub := 0
				p := 1
				for d := 1; d <= L; d++ {
					sub += p
					p *= n
				}
				idx += sub
				continue
			}
			cur = append(cur, k)
			rec(depth + 1)
			cur = cur[:len(cur)-1]
		}
	}
	rec(0)
	// the empty string
	if part == 0 && c.Want("exh-empty", 0) {
		o := c02Direct(c, "exh-empty", 0, "")
		outcomes["A|"+o+"|len0"]++
	}
	for k, v := range outcomes {
		c.R.Classes[k] += v
	}
	c.R.Exhaustive[fmt.Sprintf("all strings of 0..%d symbols over the 39-symbol alphabet", L)] = c.Only == ""
}

var mutBytes = []string{"@", ":", " ", "!", ";", "=", "\\", "\x01", "#", "\t", "\r", "\x00", " :", "  ", "\x01\x01", "@a ", ":s ", "\xff", "\xc2\xa0"}

func mutate(r interface{ Intn(int) int }, s string) string {
	n := 1 + r.Intn(3)
	for i := 0; i < n; i++ {
		switch r.Intn(6) {
		case 0: // truncate
			if len(s) > 0 {
				s = s[:r.Intn(len(s)+1)]
			}
		case 1: // drop prefix
			if len(s) > 0 {
				s = s[r.Intn(len(s)+1):]
			}
		case 2: // delete span
			if len(s) > 1 {
				a := r.Intn(len(s))
				b := a + r.Intn(len(s)-a)
				s = s[:a] + s[b:]
			}
		case 3, 4: // insert special
			a := r.Intn(len(s) + 1)
			s = s[:a] + mutBytes[r.Intn(len(mutBytes))] + s[a:]
		case 5: // replace a space by something else / or a byte by space
			if len(s) > 0 {
				a := r.Intn(len(s))
				s = s[:a] + mutBytes[r.Intn(len(mutBytes))] + s[a+1:]
			}
		}
	}
	return strings.ReplaceAll(s, "\n", "")
}

func runC02Mut(c *Ctx) {
	part, parts := c.ArgInt("part", 0), c.ArgInt("parts", 1)
	total := c.Pick(3_000_000, 40_000_000)
	per := total / parts
	outcomes := map[string]int64{}
	for i := 0; i < per; i++ {
		idx := part*per + i
		if !c.Want("mut", idx) {
			continue
		}
		r := rig.Rand(c.Seed, "C02", "mut", idx)
		m := model.RandMsg(r)
		s := mutate(r, m.Wire())
		o := c02Direct(c, "mut", idx, s)
		first := "empty"
		if len(s) > 0 {
			first = fmt.Sprintf("%q", s[:1])
		}
		outcomes[fmt.Sprintf("A-mut|%s|first=%s|verb=%s", o, first, strings.ToUpper(m.Verb))]++
		if idx%100003 == 0 {
			c.R.Sample(map[string]string{"stage": "A-mutation", "input": s, "outcome": o})
		}
	}
	for k, v := range outcomes {
		c.R.Classes[k] += v
	}
}

// ---- stage B: live connection ----

var c02Verbs = []string{"PING", "001", "433", "NICK", "CAP", "410", "AUTHENTICATE", "903", "904", "908", "PRIVMSG", "NOTICE",
	"JOIN", "KICK", "MODE", "PART", "QUIT", "TOPIC", "311", "324", "332", "352", "353", "671", "ACTION", "CTCP", "CTCPREPLY", "ERROR", "005", "FOO"}

var c02Params = []string{"", ":", "#c", "me", "ghost", "+o", "-k", "+kl", "\x01", "\x01VERSION\x01", "\x01PING\x01", "\x01PING 1 2\x01", "\x01ACTION\x01", "*", "LS", "ACK", "NAK", "sasl", "-sasl", "+", "=", "@", "H*", "0 real name", "a b c", "##", "&x", "1", "-1", "99999999999999999999"}

// CTCP requests the built-in handler answers by echoing its argument through the message splitter
func c02CTCPProbe(r interface{ Intn(int) int }) c02Probe {
	n := []int{1, 40, 449, 450, 451, 600, 1500}[r.Intn(7)]
	unit := []string{"a", "\x80\xbf", "\xff", "é", "😀", " ", ". ", "\x01"}[r.Intn(8)]
	arg := strings.Repeat(unit, n/len(unit)+1)[:n]
	verb := []string{"PING", "VERSION", "ping", "TIME"}[r.Intn(4)]
	cmd := []string{"PRIVMSG", "NOTICE"}[r.Intn(2)]
	raw := fmt.Sprintf(":x!y@z %s me :\x01%s %s\x01", cmd, verb, arg)
	raw = strings.ReplaceAll(raw, "\n", "")
	return c02Probe{raw, fmt.Sprintf("ctcp-%s-%s|unit=%q|n=%d", cmd, verb, unit, n)}
}

var c02Prefixes = []string{"", ":srv ", ":me!i@h ", ":ghost!g@h ", ":third!t@h ", ":other ", ":x!y ", ":!@ ", ":me ", "@t=v ", "@t=v :me!i@h ", ":a@b!c "}

type c02Probe struct {
	raw   string
	class string
}

// c02BuiltinProbe follows the shape the built-in (and state tracking) handlers expect and fills the slots they index,
// split and look up with hostile tokens: bare prefixes and modifiers, empty words, unknown names.
func c02BuiltinProbe(r interface{ Intn(int) int }) c02Probe {
	pick := func(xs ...string) string { return xs[r.Intn(len(xs))] }
	words := func(pool []string, max int) string {
		n := r.Intn(max + 1)
		var w []string
		for i := 0; i < n; i++ {
			w = append(w, pool[r.Intn(len(pool))])
		}
		return strings.Join(w, pick(" ", " ", "  "))
	}
	who := pick("me", "*", "ghost", "")
	ch := pick("#c", "#c", "&x", "&x", "#nochan", "", "me")
	nk := pick("me", "ghost", "other", "third", "nobody", "", "@", "+")
	var raw, kind string
	switch r.Intn(9) {
	case 0, 1:
		kind = "cap"
		toks := []string{"-", "~", "=", "-~=", "~-", "sasl", "-sasl", "~sasl", "=sasl", "multi-prefix", "a=b", "=x", "sasl=PLAIN,EXTERNAL", "-multi-prefix", "--", "-="}
		sub := pick("LS", "LS", "ACK", "ACK", "NAK", "NEW", "DEL", "LIST", "ls", "END", "")
		cont := pick("", "", "* ")
		raw = fmt.Sprintf(":srv CAP %s %s %s:%s", who, sub, cont, words(toks, 4))
	case 2:
		kind = "names"
		toks := []string{"@", "+", "@+", "%", "~", "&", "!", "@@", "@me", "+ghost", "me", "other", "@nobody", "+", "@"}
		raw = fmt.Sprintf(":srv 353 %s %s %s :%s", who, pick("=", "@", "*", ""), ch, words(toks, 5))
	case 3:
		kind = "who"
		raw = fmt.Sprintf(":srv 352 %s %s %s %s %s %s %s :%s", who, ch, pick("id", ""), pick("host", ""), "srv", nk, pick("H", "G", "H*", "H@", "Hr*", "", "*"), pick("0 real", "", "3"))
		if r.Intn(3) == 0 {
			f := strings.Fields(raw)
			raw = strings.Join(f[:min(len(f), 2+r.Intn(6))], " ")
		}
	case 4:
		kind = "mode"
		raw = fmt.Sprintf(":%s MODE %s %s %s", pick("srv", "ghost!g@h", "me!i@h"), pick(ch, nk), pick("+o", "-o", "+v", "+ov", "+l", "-l", "+k", "-k", "+kl", "+b", "+", "-", "+i", "+ooo", "o", "+lk-o", ""), words([]string{"me", "ghost", "nobody", "10", "-1", "x", "key", ""}, 3))
	case 5:
		kind = "chanreply"
		raw = fmt.Sprintf(":srv %s %s %s %s", pick("324", "332", "311", "671"), who, pick(ch, nk), words([]string{"+nt", "+l", "+kl", "+k", "10", "key", ":topic text", "id", "host", "*", ":real name", ""}, 4))
	case 6:
		kind = "membership"
		v := pick("JOIN", "PART", "KICK", "QUIT", "NICK", "TOPIC")
		raw = fmt.Sprintf(":%s %s %s", pick("me!i@h", "ghost!g@h", "third!t@h", "nobody!n@h", "srv", "!@", "other"), v, words([]string{ch, nk, "#c", ":reason text", "", ":"}, 3))
	case 7:
		kind = "registration"
		raw = fmt.Sprintf(":srv %s %s", pick("001", "433", "410", "903", "904", "908", "AUTHENTICATE", "PING", "ERROR"), words([]string{who, nk, "+", ":", ":Welcome me!ident@host", ":in use", "PLAIN,EXTERNAL", "x", ""}, 4))
	default:
		kind = "ctcp"
		raw = fmt.Sprintf(":%s %s %s :\x01%s", pick("x!y@z", "srv", "me!i@h"), pick("PRIVMSG", "NOTICE"), pick("me", "#c", ""), pick("VERSION\x01", "PING\x01", "PING", "\x01", "ACTION\x01", "VERSION extra\x01", " \x01", "USERINFO\x01"))
	}
	raw = strings.TrimRight(raw, " ")
	return c02Probe{raw, "builtin-" + kind}
}

func c02MakeProbe(r interface{ Intn(int) int }, idx int) c02Probe {
	if r.Intn(12) == 0 {
		return c02CTCPProbe(r)
	}
	if r.Intn(5) == 0 {
		return c02BuiltinProbe(r)
	}
	switch r.Intn(10) {
	case 0: // raw odd bytes
		n := r.Intn(12)
		var b strings.Builder
		for i := 0; i < n; i++ {
			if r.Intn(2) == 0 {
				b.WriteString(mutBytes[r.Intn(len(mutBytes))])
			} else {
				b.WriteString(c02Symbols[r.Intn(len(c02Symbols))])
			}
		}
		s := strings.ReplaceAll(b.String(), "\n", "")
		return c02Probe{s, "raw"}
	case 1: // mutated well-formed
		rr := rig.Rand("C02probe", idx)
		m := model.RandMsg(rr)
		return c02Probe{mutate(r, m.Wire()), "mutated"}
	}
	verb := c02Verbs[r.Intn(len(c02Verbs))]
	if r.Intn(6) == 0 {
		verb = strings.ToLower(verb)
	}
	pre := c02Prefixes[r.Intn(len(c02Prefixes))]
	n := r.Intn(9)
	var parts []string
	shape := ""
	trailingAt := -1
	if n > 0 && r.Intn(2) == 0 {
		trailingAt = n - 1
	}
	for i := 0; i < n; i++ {
		p := c02Params[r.Intn(len(c02Params))]
		if r.Intn(40) == 0 {
			// long parameters: around the reader's 4096-byte buffer, around 8 KiB, and far beyond any buffer
			p = strings.Repeat("x", []int{1024, 1024, 4060 + r.Intn(50), 4096, 8170 + r.Intn(40), 20000}[r.Intn(6)])
		}
		if i == trailingAt {
			parts = append(parts, ":"+p)
			shape += "T"
		} else {
			if p == "" || strings.Contains(p, " ") {
				p = "m"
			}
			parts = append(parts, p)
			if strings.HasPrefix(p, ":") {
				shape += "c"
			} else {
				shape += "m"
			}
		}
	}
	raw := pre + verb
	if len(parts) > 0 {
		raw += " " + strings.Join(parts, " ")
	}
	return c02Probe{raw, fmt.Sprintf("verb=%s|n=%d|pre=%q", strings.ToUpper(verb), n, strings.TrimSpace(pre))}
}

func runC02Live(c *Ctx) {
	tracking := c.Arg("tracking", "0") == "1"
	total := c.Pick(12_000, 250_000)
	sessLen := 250
	logger := rig.NewCapLogger(nil)
	logger.Discard = func(r *rig.LogRecord) bool {
		// keep only what the oracle needs: parse problems and recovered panics
		return !(strings.HasPrefix(r.Format, "irc.recv(): problems parsing") || strings.Contains(r.Format, "panic:"))
	}
	for base := 0; base < total; base += sessLen {
		logger.Reset()
		s := NewSession(SessionOpts{Flood: true, Tracking: tracking})
		mc, err := s.Connect()
		if err != nil {
			c.R.Inconcl("connect failed: " + err.Error())
			return
		}
		if !AwaitRegistration(mc) {
			c.R.Inconcl("registration not seen")
			return
		}
		var mu sync.Mutex
		probeHits := 0
		var gate chan struct{}
		var nums []string
		registered := map[string]bool{}
		probeHandler := func(_ *client.Conn, l *client.Line) {
			if n := len(l.Args); n > 0 && strings.HasPrefix(l.Args[n-1], "sync-") {
				return // the harness's own wire marker (PING :sync-n)
			}
			mu.Lock()
			probeHits++
			g := gate
			mu.Unlock()
			if g != nil {
				<-g // a slow handler: the lines that follow pile up behind it
			}
		}
		// (a background handler too: background dispatches of consecutive lines overlap)
		s.Conn.HandleBG("VNUM", client.HandlerFunc(func(_ *client.Conn, l *client.Line) {}))
		s.Conn.HandleFunc("VNUM", func(_ *client.Conn, l *client.Line) {
			mu.Lock()
			if len(l.Args) > 0 {
				nums = append(nums, l.Args[0])
			}
			mu.Unlock()
		})
		// a tracked session starts on a channel so that state handlers have something to chew on
		if tracking {
			// two channels with different members: nicks that are tracked but not on the channel a line names
			mc.SendLine(":me!ident@h JOIN #c")
			mc.SendLine(":srv 353 me = #c :@me +ghost other")
			mc.SendLine(":me!ident@h JOIN &x")
			mc.SendLine(":srv 353 me = &x :me @third")
		}
		if !s.FgMarker(mc) {
			c.R.Inconcl("initial marker not reached")
			return
		}
		dead := false
		for i := 0; i < sessLen && base+i < total; i++ {
			idx := base + i
			if !c.Want("live", idx) {
				continue
			}
			r := rig.Rand(c.Seed, "C02", "live", tracking, c.Arg("salt", ""), idx)
			if tracking && i%20 == 19 {
				// get back onto the channel in case a probe removed us
				mc.SendLine(":" + s.Conn.Me().Nick + "!ident@h JOIN #c")
				mc.SendLine(":srv 353 me = #c :@me +ghost other")
				mc.SendLine(":" + s.Conn.Me().Nick + "!ident@h JOIN &x")
				mc.SendLine(":srv 353 me = &x :me @third")
				if !s.FgMarker(mc) {
					c.R.Inconcl("re-join marker not reached")
					dead = true
					break
				}
			}
			p := c02MakeProbe(r, idx)
			seen := strings.Trim(p.raw, "\r\n")
			// what does a direct parse say? (under recover: a panic here is a stage-A finding, do not send it — it would only kill the worker)
			var direct *client.Line
			var pv interface{}
			func() {
				defer func() { pv = recover() }()
				direct = client.ParseLine(seen)
			}()
			if pv != nil {
				c.R.Count("live_probes_skipped_known_parser_panic", 1)
				continue
			}
			c.J.Log("CASE %s tracking=%v %q", Case("live", idx), tracking, p.raw)
			verb := ""
			if direct != nil {
				verb = direct.Cmd
				if strings.EqualFold(verb, "VMARK") || strings.EqualFold(verb, "VNUM") {
					continue
				}
				key := strings.ToLower(verb)
				if !registered[key] {
					registered[key] = true
					s.Conn.HandleFunc(verb, probeHandler)
				}
			}
			mu.Lock()
			probeHits = 0
			nums = nums[:0]
			mu.Unlock()
			rejBefore := logger.Count(func(r *rig.LogRecord) bool { return strings.HasPrefix(r.Format, "irc.recv(): problems parsing") })
			k := 1 + r.Intn(3)
			var g chan struct{}
			if r.Intn(25) == 0 {
				// a burst behind a slow handler: more lines than any of the client's queues hold
				k = 30 + r.Intn(90)
				g = make(chan struct{})
				mu.Lock()
				gate = g
				mu.Unlock()
				c.R.Count("live_bursts_behind_slow_handler", 1)
			}
			var want []string
			var buf []byte
			buf = append(buf, p.raw+"\r\n"...)
			for j := 0; j < k; j++ {
				id := fmt.Sprintf("%d.%d", idx, j)
				want = append(want, id)
				buf = append(buf, fmt.Sprintf(":srv VNUM %s :well formed\r\n", id)...)
			}
			if r.Intn(2) == 0 {
				mc.SendBytes(buf)
			} else {
				var cuts []int
				for q := 1 + r.Intn(9); q < len(buf); q += 1 + r.Intn(40) {
					cuts = append(cuts, q)
				}
				mc.SendSegmented(buf, cuts)
			}
			if g != nil {
				time.Sleep(time.Duration(1+r.Intn(4)) * time.Millisecond)
				mu.Lock()
				gate = nil
				mu.Unlock()
				close(g)
			}
			okW := s.WireMarker(mc)
			okF := okW && s.FgMarker(mc)
			c.R.Eval(1)
			if !okF || !okW {
				if mc.Closed() {
					c.R.Violate(rig.Violation{
						Sig:     "live|connection-closed-after-probe",
						Detail:  fmt.Sprintf("connection was closed by the client after probe %q (tracking=%v)", p.raw, tracking),
						Case:    Case("live", idx),
						Witness: map[string]interface{}{"probe": p.raw},
					})
				} else {
					ds := rig.ProveDead(WaitShort)
					if ds.Dead {
						c.R.Violate(rig.Violation{
							Sig:     "live|processing-stopped|" + ds.Signature,
							Detail:  fmt.Sprintf("after probe %q the marker was never answered and the process is in a dead state: %s", p.raw, ds.Signature),
							Case:    Case("live", idx),
							Witness: map[string]interface{}{"probe": p.raw, "dump": ds.Dump},
						})
					} else {
						c.R.Inconcl(fmt.Sprintf("%s: marker not answered after probe %q (%s)", Case("live", idx), p.raw, ds.Reason))
					}
				}
				dead = true
				break
			}
			mu.Lock()
			hits := probeHits
			gotNums := append([]string(nil), nums...)
			mu.Unlock()
			rej := logger.Count(func(r *rig.LogRecord) bool { return strings.HasPrefix(r.Format, "irc.recv(): problems parsing") }) - rejBefore
			outcome := ""
			switch {
			case direct == nil && rej == 1 && hits == 0:
				outcome = "rejected"
			case direct != nil && rej == 0 && hits == 1:
				outcome = "dispatched"
			default:
				c.R.Violate(rig.Violation{
					Sig:     fmt.Sprintf("live|neither-or-both|parse=%v|rejected=%d|dispatched=%d", direct != nil, min(rej, 2), min(hits, 2)),
					Detail:  fmt.Sprintf("probe %q: ParseLine says parsed=%v (verb %q) but the connection logged %d rejections and dispatched it %d times", p.raw, direct != nil, verb, rej, hits),
					Case:    Case("live", idx),
					Witness: map[string]interface{}{"probe": p.raw},
				})
				outcome = "bad"
			}
			if strings.Join(gotNums, ",") != strings.Join(want, ",") {
				c.R.Violate(rig.Violation{
					Sig:     "live|following-lines-lost-or-reordered",
					Detail:  fmt.Sprintf("after probe %q the well-formed lines %v arrived as %v", p.raw, want, gotNums),
					Case:    Case("live", idx),
					Witness: map[string]interface{}{"probe": p.raw},
				})
			}
			c.R.Class(fmt.Sprintf("B|t=%v|%s|%s", tracking, outcome, p.class))
			if idx%997 == 0 {
				c.R.Sample(map[string]interface{}{"stage": "B-live", "tracking": tracking, "probe": p.raw, "outcome": outcome, "followed_by": want})
			}
		}
		c.R.Count("recovered_handler_panics", int64(logger.Count(func(r *rig.LogRecord) bool { return strings.Contains(r.Format, "panic:") })))
		if !dead {
			s.Conn.Close()
		}
		s.Release()
		if dead {
			return
		}
	}
}
