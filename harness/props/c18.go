package props

import (
	"bytes"
	"crypto/tls"
	"fmt"
	sasl "github.com/emersion/go-sasl"
	"strings"
	"sync/atomic"
	"time"

	"github.com/fluffle/goirc/client"

	"verif/harness/rig"
)

func init() {
	register(&Property{
		ID: "C18",
		Rule: "(a) dial address: 12 server spellings (host names, IPv4, bracketed IPv6, each with and without port) x SSL on/off x plain/context dialer; the address handed to the registered proxy dialer must be the configured one with " +
			":6667 / :6697 appended iff it had no port; (b) registration: the product nick/ident/name shapes x password x capability negotiation x tracking, for first, second and third connects of the same client (after welcomes that change the nick): " +
			"the first wire lines must be [CAP LS]? [PASS p]? NICK <current nick> USER <ident> 12 * :<name>, once each, in this order; (c) PING: tokens from a hostile pool (spaces, colons, leading colon, empty-but-present, 400 bytes, lower-case verb, " +
			"two parameters) interleaved with other traffic must each be answered by exactly PONG :<token>, in order; (d) client PINGs: in virtual time (testing/synctest bubble, go1.26.8) the instants of client PINGs over a span must be the " +
			"multiples of PingFreq when it is positive and there must be none in a virtual hour when it is <= 0. PING tokens include trailing blanks, tabs, a lone blank and padded tokens. The server renames the client with a NICK line between connects (nobody calls Me()); clients are built through Client(NewConfig), SimpleClient (with and without ident/name) and Client(nil); a quarter of the cells reconnect from inside the DISCONNECTED handler. Half of the cells connect with ConnectTo (password handed over once); the application picks a nick through Config() before the third connect and Me() is compared after its welcome. Every tenth ping round starts with a PING at the head of 25 lines that need no answer, and then silence: its PONG must be on the wire without further stimulus. A quarter of the negotiating cells also configure SASL (PASS is still owed); PING tokens include latin-1 bytes, bytes that are not UTF-8, a truncated multi-byte character and control bytes. distinct_nontrivial = distinct configuration cells (spelling x SSL x dialer | nick/ident/name/pass/cap/tracking shape x connect ordinal | token class | PingFreq).",
		Assumptions: []string{
			"in the dial grid an SSL dial is observed and then refused; the separate 'tls' batch completes real TLS handshakes against a server on the in-memory transport (certificate generated at run time); bare unbracketed IPv6 literals are ambiguous and not generated",
			"virtual time: built with go1.26.8 instead of the repository's go1.23.5 (same source, different compiler)",
		},
		Plan: func(tier string, seed int64) []Batch {
			bs := []Batch{
				{Name: "dial", Args: map[string]string{"mode": "dial"}, Race: true, Procs: 2},
				{Name: "reg", Args: map[string]string{"mode": "reg"}, Race: true, Procs: 4},
				{Name: "ping", Args: map[string]string{"mode": "ping"}, Race: true, Procs: 4},
				{Name: "tls", Args: map[string]string{"mode": "tls"}, Race: true, Procs: 4},
				{Name: "vping", Kind: "synctest", Args: map[string]string{"test": "TestC18Pings"}, Race: true, Weight: 4},
			}
			if tier == "thorough" {
				bs = append(bs, splitBatches("pingx", 6, false, 2, map[string]string{"mode": "ping", "heavy": "1"})...)
			}
			return bs
		},
		Run: runC18,
	})
}

func runC18(c *Ctx) {
	switch c.Arg("mode", "") {
	case "dial":
		runC18Dial(c)
	case "reg":
		runC18Reg(c)
	case "ping":
		runC18Ping(c)
	case "tls":
		runC18TLS(c)
	}
}

// runC18TLS: with SSL set the client dials the 6697 default, completes a real TLS handshake with a server
// sitting on the in-memory transport, registers through it and answers PINGs through it.
func runC18TLS(c *Ctx) {
	_, pool, err := rig.TestTLS()
	if err != nil {
		c.R.Inconcl("cannot generate a test certificate: " + err.Error())
		return
	}
	idx := 0
	for _, server := range []string{"irc.test", "irc.test:7000", "irc.test:6697"} {
		for _, pass := range []string{"", "tlspass"} {
			for _, ctxd := range []bool{false, true} {
				if !c.Want("tls", idx) {
					idx++
					continue
				}
				c.J.Log("CASE %s server=%s pass=%q ctxdialer=%v", Case("tls", idx), server, pass, ctxd)
				s := NewSession(SessionOpts{Flood: true, CtxAware: ctxd, Mutate: func(cfg *client.Config) {
					cfg.Server, cfg.SSL, cfg.Pass = server, true, pass
					cfg.SSLConfig = &tls.Config{RootCAs: pool, ServerName: "irc.test"}
				}})
				var srv *rig.TLSServer
				s.EP.Prepare(func(mc *rig.MemConn) { srv = rig.ServeTLS(mc) })
				viol := func(kind, detail string) {
					c.R.Violate(rig.Violation{Sig: "c18|tls-" + kind, Detail: fmt.Sprintf("server %q pass=%q: %s", server, pass, detail), Case: Case("tls", idx)})
				}
				var cerr error
				if !watched(func() { cerr = s.Conn.Connect() }) {
					c.R.Inconcl("Connect with SSL did not return")
					return
				}
				c.R.Eval(1)
				if cerr != nil {
					viol("connect", "Connect failed: "+cerr.Error())
				} else {
					d := s.EP.Dials()
					want := server
					if !strings.Contains(server, ":") {
						want += ":6697"
					}
					if len(d) != 1 || d[0].Addr != want {
						viol("dial-address", fmt.Sprintf("dialled %v, want %q", d, want))
					}
					if !srv.WaitLine(WaitLong, func(l string) bool { return strings.HasPrefix(l, "USER ") }) {
						viol("registration", fmt.Sprintf("no USER line through TLS (handshake error: %v); lines %q", srv.Err, srv.Lines()))
					} else {
						srv.Send("PING :over-tls")
						if !srv.WaitLine(WaitLong, func(l string) bool { return l == "PONG :over-tls" }) {
							viol("pong", "PING through TLS was not answered")
						}
						var want []string
						if pass != "" {
							want = append(want, "PASS "+pass)
						}
						want = append(want, "NICK me", "USER ident 12 * :Real Name", "PONG :over-tls")
						if got := srv.Lines(); strings.Join(got, "\n") != strings.Join(want, "\n") {
							viol("registration", fmt.Sprintf("decrypted lines %q, want %q", got, want))
						}
						// the bytes on the transport are ciphertext
						if bytes.Contains(s.EP.Last().Transcript(), []byte("NICK me")) {
							viol("plaintext", "registration went over the transport in clear although SSL is set")
						}
					}
					CloseWatched(s.Conn)
				}
				c.R.Class(fmt.Sprintf("tls|port-given=%v|pass=%v|ctxdialer=%v", strings.Contains(server, ":"), pass != "", ctxd))
				c.R.Sample(map[string]interface{}{"tls_session": server, "decrypted_lines": srv.Lines()})
				s.Release()
				idx++
			}
		}
	}
}

func runC18Dial(c *Ctx) {
	type sp struct {
		server  string
		hasPort bool
		class   string
	}
	spellings := []sp{
		{"irc.example.org", false, "host"}, {"irc.example.org:7000", true, "host:port"}, {"localhost", false, "host"}, {"localhost:6667", true, "host:port"},
		{"192.0.2.7", false, "ipv4"}, {"192.0.2.7:6697", true, "ipv4:port"}, {"[::1]", false, "[ipv6]"}, {"[::1]:6667", true, "[ipv6]:port"},
		{"[2001:db8::1]", false, "[ipv6]"}, {"[2001:db8::1]:7000", true, "[ipv6]:port"}, {"x", false, "host"}, {"a.b:1", true, "host:port"},
	}
	idx := 0
	for _, s := range spellings {
		for _, ssl := range []bool{false, true} {
			for _, ctxd := range []bool{false, true} {
				for _, useCtx := range []bool{false, true} {
					if !c.Want("dial", idx) {
						idx++
						continue
					}
					c.J.Log("CASE %s server=%q ssl=%v ctxdialer=%v usectx=%v", Case("dial", idx), s.server, ssl, ctxd, useCtx)
					sess := NewSession(SessionOpts{Flood: true, CtxAware: ctxd, Mutate: func(cfg *client.Config) { cfg.Server, cfg.SSL = s.server, ssl }})
					if ssl {
						sess.EP.RefuseNext(nil)
					}
					var err error
					if useCtx {
						_, err = sess.ConnectCtx(contextBackground())
					} else {
						_, err = sess.Connect()
					}
					d := sess.EP.Dials()
					c.R.Eval(1)
					want := s.server
					if !s.hasPort {
						port := "6667"
						if ssl {
							port = "6697"
						}
						want = s.server + ":" + port
					}
					switch {
					case len(d) != 1:
						c.R.Violate(rig.Violation{Sig: "c18|dial-count", Detail: fmt.Sprintf("server %q ssl=%v: %d dials, err=%v", s.server, ssl, len(d), err), Case: Case("dial", idx)})
					case d[0].Addr != want || d[0].Network != "tcp":
						c.R.Violate(rig.Violation{Sig: "c18|dial-address|" + s.class, Detail: fmt.Sprintf("server %q ssl=%v: dialled %s %q, want tcp %q", s.server, ssl, d[0].Network, d[0].Addr, want), Case: Case("dial", idx)})
					}
					c.R.Class(fmt.Sprintf("dial|%s|ssl=%v|ctxdialer=%v|usectx=%v", s.class, ssl, ctxd, useCtx))
					if idx%17 == 0 {
						c.R.Sample(map[string]interface{}{"server": s.server, "ssl": ssl, "dialled": d[0].Addr})
					}
					if err == nil {
						CloseWatched(sess.Conn)
					}
					sess.Release()
					idx++
				}
			}
		}
	}
	c.R.Exhaustive["12 server spellings x SSL x dialer kind x Connect/ConnectContext"] = c.Only == ""
}

func runC18Reg(c *Ctx) {
	nicks := []string{"me", "N[x]`", "a", "nick-with-20-chars-xx"}
	idents := []string{"ident", "~u", "i.d"}
	names := []string{"Real Name", "x", "name with :colon and  spaces", ":lead"}
	passes := []string{"", "secret", "pass with space", ":colonpass"}
	idx := 0
	for ni, nick := range nicks {
		for ii, ident := range idents {
			for _, name := range names {
				for _, pass := range passes {
					for _, capn := range []bool{false, true} {
						tracking := (ni+ii+idx)%2 == 0
						if !c.Want("reg", idx) {
							idx++
							continue
						}
						c.J.Log("CASE %s nick=%q ident=%q name=%q pass=%q cap=%v tracking=%v", Case("reg", idx), nick, ident, name, pass, capn, tracking)
						s := NewSession(SessionOpts{Flood: true})
						// build the client ourselves (NewSession's defaults do not fit here), through each of the
						// constructors in turn; everything else is set through Config() afterwards
						var conn *client.Conn
						ident, name, nick := ident, name, nick
						ctor := []string{"Client(NewConfig(nick, ident, name))", "SimpleClient(nick, ident, name)", "SimpleClient(nick)", "Client(nil)"}[(idx/2)%4]
						switch (idx / 2) % 4 {
						case 0:
							conn = client.Client(client.NewConfig(nick, ident, name))
						case 1:
							conn = client.SimpleClient(nick, ident, name)
						case 2:
							conn = client.SimpleClient(nick)
						default:
							conn = client.Client(nil)
						}
						cfg := conn.Config()
						if (idx/2)%4 >= 2 {
							// the defaults the constructor chose are the client's identity: they must exist
							if cfg.Me == nil || cfg.Me.Nick == "" || cfg.Me.Ident == "" || cfg.Me.Name == "" || ((idx/2)%4 == 2 && cfg.Me.Nick != nick) {
								c.R.Violate(rig.Violation{Sig: "c18|constructor-identity", Detail: fmt.Sprintf("%s left the client with identity %+v", ctor, cfg.Me), Case: Case("reg", idx)})
								s.Release()
								idx++
								continue
							}
							nick, ident, name = cfg.Me.Nick, cfg.Me.Ident, cfg.Me.Name
						}
						cfg.Server, cfg.Proxy, cfg.Flood, cfg.PingFreq = "irc.test", s.EP.ProxyURL(idx%2 == 0), true, 0
						cfg.Pass, cfg.EnableCapabilityNegotiation = pass, capn
						if capn && idx%4 == 1 {
							// an account login over SASL next to the connection password: both are configured, PASS is still owed
							cfg.Sasl = sasl.NewPlainClient("", "account", "account-password")
							c.R.Class(fmt.Sprintf("reg|sasl-configured|pass=%v", pass != ""))
						}
						if tracking {
							conn.EnableStateTracking()
						}
						cur := nick
						// in a quarter of the cells the second and third connect are made from inside the DISCONNECTED
						// handler, after the server has dropped the link
						inHandler := (idx/8)%4 == 3
						var again int32
						reconn := make(chan error, 1)
						if inHandler {
							conn.HandleFunc(client.DISCONNECTED, func(cc *client.Conn, l *client.Line) {
								if atomic.LoadInt32(&again) == 1 {
									reconn <- cc.Connect()
								}
							})
						}
						for ordinal := 1; ordinal <= 3; ordinal++ {
							var err error
							if ordinal == 1 || !inHandler {
								switch {
								case (idx/32)%2 == 1 && ordinal == 1 && pass != "" && idx%2 == 0:
									err = conn.ConnectTo("irc.test", pass) // the password handed over with the first call ...
								case (idx/32)%2 == 1:
									err = conn.ConnectTo("irc.test") // ... stays the client's password for later calls without one
								default:
									err = conn.Connect()
								}
							} else {
								done := make(chan struct{})
								go func() { err = <-reconn; close(done) }()
								if !waitCh(done) {
									c.R.Inconcl(fmt.Sprintf("%s: the DISCONNECTED handler never reconnected", Case("reg", idx)))
									break
								}
							}
							if err != nil {
								c.R.Violate(rig.Violation{Sig: "c18|connect-failed", Detail: fmt.Sprintf("connect %d failed: %v", ordinal, err), Case: Case("reg", idx)})
								break
							}
							mc := s.EP.Last()
							if !AwaitRegistration(mc) {
								ds := rig.ProveDead(WaitShort)
								if ds.Dead {
									c.R.Violate(rig.Violation{Sig: "c18|registration-missing", Detail: fmt.Sprintf("connect %d (nick %q): no USER line was ever written; dead state %s; lines so far %q", ordinal, cur, ds.Signature, mc.Lines()), Case: Case("reg", idx)})
								} else {
									c.R.Inconcl(fmt.Sprintf("%s: registration not seen (%s)", Case("reg", idx), ds.Reason))
								}
								go conn.Close()
								break
							}
							// a sync point so that nothing of the burst is still in flight
							mc.SendLine("PING :regsync")
							mc.WaitLineFrom(WaitLong, 0, func(l string) bool { return l == "PONG :regsync" })
							var want []string
							if capn {
								want = append(want, "CAP LS")
							}
							if pass != "" {
								want = append(want, "PASS "+pass)
							}
							want = append(want, "NICK "+cur, "USER "+ident+" 12 * :"+name)
							var got []string
							for _, l := range mc.Lines() {
								if l != "PONG :regsync" {
									got = append(got, l)
								}
							}
							// (nothing but the sync PING has been sent by the server so far)
							c.R.Eval(1)
							if strings.Join(got, "\n") != strings.Join(want, "\n") {
								c.R.Violate(rig.Violation{Sig: "c18|registration-lines", Detail: fmt.Sprintf("connect %d of a client built with %s: first wire lines %q, want %q", ordinal, ctor, got, want), Case: Case("reg", idx)})
							}
							c.R.Class(fmt.Sprintf("reg|nick%d|ident%d|pass=%v|cap=%v|tracking=%v|connect%d", ni, ii, pass != "", capn, tracking, ordinal))
							if capn && (ni+ii)%2 == 0 {
								// this server does answer CAP LS (what it advertised must not change the next registration)
								mc.SendLine(":srv CAP * LS :multi-prefix sasl server-time")
							}
							// welcome: the second one changes the nick, so the third connect must register with the new one
							wn := cur
							if ordinal == 2 {
								wn = "changed"
							}
							mc.SendLine(fmt.Sprintf(":srv 001 %s :Welcome %s!%s@host", wn, wn, ident))
							cur = wn
							if ordinal == 1 && idx%3 == 0 {
								// a nick change made by the server with a NICK line (nobody asks the client for its nick
								// afterwards): the next registration asks for the nick the client has now
								rn := fmt.Sprintf("renamed%d", idx%7)
								mc.SendLine(fmt.Sprintf(":%s!%s@host NICK %s", cur, ident, rn))
								cur = rn
							}
							mc.SendLine("PING :wsync")
							mc.WaitLineFrom(WaitLong, 0, func(l string) bool { return l == "PONG :wsync" })
							if ordinal == 3 {
								// the nick the server has just welcomed the client under is its current nick
								if me := conn.Me(); me == nil || me.Nick != cur {
									got := "<nil>"
									if me != nil {
										got = me.Nick
									}
									c.R.Violate(rig.Violation{Sig: "c18|current-nick-after-welcome", Detail: fmt.Sprintf("connect 3 registered as %q and was welcomed as %q; the client now calls itself %q (tracking=%v)", cur, cur, got, tracking), Case: Case("reg", idx)})
								}
							}
							if inHandler && ordinal < 3 {
								atomic.StoreInt32(&again, 1)
								mc.SendEOF()
								continue
							}
							atomic.StoreInt32(&again, 0)
							if !CloseWatched(conn) {
								c.R.Inconcl(fmt.Sprintf("%s: Close did not return", Case("reg", idx)))
								break
							}
							if ordinal == 2 && idx%3 == 1 {
								// while disconnected the application picks another nick through Config(): the next
								// registration asks for it, and once the server has confirmed it it is the client's nick
								cur = fmt.Sprintf("appset%d", idx%5)
								conn.Config().Me.Nick = cur
							}
						}
						if idx%41 == 0 {
							c.R.Sample(map[string]interface{}{"nick": nick, "ident": ident, "name": name, "pass": pass, "cap": capn, "tracking": tracking})
						}
						s.Release()
						idx++
					}
				}
			}
		}
	}
	c.R.Exhaustive["4 nicks x 3 idents x 4 names x 4 passwords x negotiation on/off, three connects each"] = c.Only == ""
}

var c18Tokens = []struct{ line, tok, class string }{
	{"PING :simple", "simple", "simple"},
	{"PING simple2", "simple2", "middle"},
	{"PING :with some spaces", "with some spaces", "spaces"},
	{"PING :a:b:c", "a:b:c", "colons"},
	{"PING ::leading", ":leading", "leading-colon"},
	{"PING :", "", "empty-present"},
	{"ping :lower", "lower", "lower-verb"},
	{"PING first second", "first", "two-params"},
	{"PING first :second trailing", "first", "two-params-trailing"},
	{":irc.srv PING :with-source", "with-source", "with-source"},
	{"PING :" + strings.Repeat("L", 400), strings.Repeat("L", 400), "long400"},
	{"PING :" + strings.Repeat("M", 4200), strings.Repeat("M", 4200), "long4200 (beyond the read buffer)"},
	{"PING :" + strings.Repeat("N", 9000), strings.Repeat("N", 9000), "long9000"},
	{"PING :1234567890", "1234567890", "digits"},
	{"PING : lead space", " lead space", "lead-space"},
	{"@t=1 PING :tagged", "tagged", "tagged"},
	{"PING :trail ", "trail ", "trailing-space"},
	{"PING :tab\t", "tab\t", "trailing-tab"},
	{"PING : ", " ", "only-space"},
	{"PING :  both  ", "  both  ", "padded"},
	{"PING :caf\xe9", "caf\xe9", "latin-1 byte"},
	{"PING :\xff\xfe\x80cookie\xc3", "\xff\xfe\x80cookie\xc3", "bytes that are not UTF-8"},
	{"PING :日本\xe6\x97", "日本\xe6\x97", "truncated multi-byte character"},
	{"PING :\x01\x02\x7f\x1f", "\x01\x02\x7f\x1f", "control bytes"},
}

func runC18Ping(c *Ctx) {
	rounds := c.Pick(300, 1500)
	if c.Arg("heavy", "") == "1" {
		rounds = 3000
	}
	part := c.ArgInt("part", 0)
	for idx := 0; idx < rounds; idx++ {
		if !c.Want("ping", idx) {
			continue
		}
		r := rig.Rand(c.Seed, "C18ping", part, idx)
		s := NewSession(SessionOpts{Flood: true, Tracking: r.Intn(2) == 0})
		mc, err := s.Connect()
		if err != nil {
			c.R.Inconcl("connect: " + err.Error())
			return
		}
		if !AwaitRegistration(mc) {
			c.R.Inconcl("registration not seen")
			return
		}
		if idx%10 == 3 {
			// a PING at the head of a burst of lines that cause no output, and then silence: the PONG is on the wire
			// without any further stimulus (what the client wrote is not left waiting for a later write)
			from := mc.NumLines()
			tok := fmt.Sprintf("quiet%d", idx)
			b := []byte("PING :" + tok + "\r\n")
			for k := 0; k < 25; k++ {
				b = append(b, fmt.Sprintf(":srv NOTICE me :line %d of a burst that needs no answer\r\n", k)...)
			}
			s.Conn.HandleFunc("NOTICE", func(_ *client.Conn, _ *client.Line) { time.Sleep(200 * time.Microsecond) })
			mc.SendBytes(b)
			if mc.WaitLineFrom(WaitLong, from, func(l string) bool { return l == "PONG :"+tok }) < 0 {
				if ds := rig.ProveDead(WaitShort); ds.Dead && !mc.Closed() {
					c.R.Violate(rig.Violation{Sig: "c18|pong-not-on-the-wire", Detail: "a PING followed at once by 25 lines that need no answer was never answered on the wire although the client is idle (" + ds.Signature + ")", Case: Case("ping", idx)})
					go s.Conn.Close()
					s.Release()
					if c.R.NumViolations() > 10 {
						return
					}
					continue
				}
				c.R.Inconcl(fmt.Sprintf("%s: PONG after a quiet burst not seen", Case("ping", idx)))
				return
			}
			c.R.Count("pings_at_the_head_of_a_quiet_burst", 1)
		}
		n := 20 + r.Intn(100)
		var want []string
		var stream []byte
		for k := 0; k < n; k++ {
			if r.Intn(3) == 0 {
				stream = append(stream, fmt.Sprintf(":n!u@h PRIVMSG #c :noise %d\r\n", k)...)
				continue
			}
			t := c18Tokens[r.Intn(len(c18Tokens))]
			line, tok := t.line, t.tok
			if t.class == "simple" {
				tok = fmt.Sprintf("tok-%d-%d", idx, k)
				line = "PING :" + tok
			}
			stream = append(stream, line+"\r\n"...)
			want = append(want, "PONG :"+tok)
			c.R.Class("ping|" + t.class)
		}
		c.J.Log("CASE %s pings=%d", Case("ping", idx), len(want))
		var cuts []int
		for q := 1 + r.Intn(30); q < len(stream); q += 1 + r.Intn(200) {
			cuts = append(cuts, q)
		}
		backlog := idx%3 == 2
		floodDone := make(chan struct{})
		if backlog {
			// the PINGs arrive while the output queue is full: the server has stopped reading and the
			// application keeps sending; every token must still be answered once the server reads again
			mc.Stall(0)
			var issued int64
			go func() {
				defer close(floodDone)
				for k := 0; k < 150; k++ {
					s.Conn.Raw(fmt.Sprintf("PRIVMSG #flood :line %d", k))
					atomic.AddInt64(&issued, 1)
				}
			}()
			waitUntilShort(func() bool { return atomic.LoadInt64(&issued) >= 33 && mc.BlockedWriters() > 0 }, 2*time.Second)
			c.R.Class("ping|while-output-queue-full")
		} else {
			close(floodDone)
		}
		mc.SendSegmented(stream, cuts)
		if backlog {
			time.Sleep(2 * time.Millisecond)
			mc.Resume()
			if !waitCh(floodDone) {
				if mc.Closed() {
					// nothing ended this connection: the client gave it up while it owed PONGs
					c.R.Violate(rig.Violation{Sig: "c18|connection-given-up-while-pinged", Detail: "the client closed the connection while the server was pinging it and the application was sending (no fault was injected): the PONGs owed are never sent", Case: Case("ping", idx)})
					if c.R.NumViolations() > 10 {
						return
					}
					continue
				}
				c.R.Inconcl(fmt.Sprintf("%s: flooding goroutine did not finish", Case("ping", idx)))
				return
			}
		}
		okM := s.FgMarker(mc) && s.WireMarker(mc)
		if !okM {
			if mc.Closed() {
				c.R.Violate(rig.Violation{Sig: "c18|connection-given-up-while-pinged", Detail: "the client closed the connection while the server was pinging it (no fault was injected): the PONGs owed are never sent", Case: Case("ping", idx)})
				if c.R.NumViolations() > 10 {
					return
				}
				continue
			}
			if ds := rig.ProveDead(WaitShort); ds.Dead {
				c.R.Violate(rig.Violation{Sig: "c18|pings-unanswered|" + ds.Signature, Detail: "after a stream of PINGs the client no longer answers (dead state " + ds.Signature + ")", Case: Case("ping", idx)})
				if c.R.NumViolations() > 10 {
					return
				}
				continue
			}
			c.R.Inconcl(fmt.Sprintf("%s: marker not reached", Case("ping", idx)))
			return
		}
		var got []string
		for _, l := range mc.Lines() {
			if strings.HasPrefix(l, "PONG ") && !strings.HasPrefix(l, "PONG :sync-") && !strings.HasPrefix(l, "PONG :quiet") {
				got = append(got, l)
			}
		}
		c.R.Eval(int64(len(want)))
		if strings.Join(got, "\n") != strings.Join(want, "\n") {
			first := -1
			for i := range want {
				if i >= len(got) || got[i] != want[i] {
					first = i
					break
				}
			}
			d := fmt.Sprintf("%d PONGs for %d PINGs", len(got), len(want))
			if first >= 0 && first < len(got) {
				d = fmt.Sprintf("PONG #%d is %q, want %q", first, clipS(got[first]), clipS(want[first]))
			} else if first >= 0 {
				d = fmt.Sprintf("PONG #%d %q missing (%d PONGs for %d PINGs)", first, clipS(want[first]), len(got), len(want))
			}
			c.R.Violate(rig.Violation{Sig: "c18|pong", Detail: d, Case: Case("ping", idx)})
		}
		if idx%13 == 0 {
			c.R.Sample(map[string]interface{}{"pings": len(want), "segments": len(cuts) + 1, "first_pongs": got[:min(3, len(got))]})
		}
		go s.Conn.Close()
		s.Release()
	}
	_ = time.Second
}
