package props

import (
	"bufio"
	"context"
	"fmt"
	"net"
	"strings"
	"sync"
	"sync/atomic"
	"time"

	"github.com/fluffle/goirc/client"

	"verif/harness/rig"
)

// Loopback mode of C07 (and of the lifecycle counts of C06): the same teardown questions over real TCP sockets,
// dialled directly (no proxy), so that whatever the library does with a *net.TCPConn - half-closes, keep-alives,
// deadlines - is part of what is observed. The server end is a goroutine of this process; servers differ in what they
// do when the client stops sending: one closes its side, the other keeps the socket open for ever (a hung server, a
// dead link). Neither may keep Close from returning or DISCONNECTED from being delivered.

type tcpSrvConn struct {
	c      net.Conn
	mu     sync.Mutex
	lines  []string
	eofAt  int32 // 1 once the client's end of stream was seen
	closed int32
}

func (t *tcpSrvConn) snapshot() []string {
	t.mu.Lock()
	defer t.mu.Unlock()
	return append([]string(nil), t.lines...)
}

type tcpSrv struct {
	ln       net.Listener
	mu       sync.Mutex
	conns    []*tcpSrvConn
	holdOpen bool // keep the socket open after the client's end of stream
	accepted chan *tcpSrvConn
	stopping int32
	stopCh   chan struct{}
	wg       sync.WaitGroup
}

func newTCPSrv(holdOpen bool) (*tcpSrv, error) {
	ln, err := net.Listen("tcp", "127.0.0.1:0")
	if err != nil {
		return nil, err
	}
	s := &tcpSrv{ln: ln, holdOpen: holdOpen, accepted: make(chan *tcpSrvConn, 16), stopCh: make(chan struct{})}
	s.wg.Add(1)
	go s.acceptLoop()
	return s, nil
}

func (s *tcpSrv) acceptLoop() {
	defer s.wg.Done()
	for {
		c, err := s.ln.Accept()
		if err != nil {
			return
		}
		rig.CallTick()
		sc := &tcpSrvConn{c: c}
		s.mu.Lock()
		s.conns = append(s.conns, sc)
		s.mu.Unlock()
		s.wg.Add(1)
		go s.serve(sc)
		s.accepted <- sc
	}
}

func (s *tcpSrv) serve(sc *tcpSrvConn) {
	defer s.wg.Done()
	rd := bufio.NewReaderSize(sc.c, 65536)
	for {
		l, err := rd.ReadString('\n')
		rig.CallTick()
		if l != "" {
			sc.mu.Lock()
			sc.lines = append(sc.lines, strings.TrimRight(l, "\r\n"))
			sc.mu.Unlock()
		}
		if err != nil {
			atomic.StoreInt32(&sc.eofAt, 1)
			if !s.holdOpen || atomic.LoadInt32(&s.stopping) == 1 {
				sc.c.Close()
				atomic.StoreInt32(&sc.closed, 1)
				return
			}
			// a server that never closes its side: park until the scenario is over
			<-s.stopCh
			sc.c.Close()
			atomic.StoreInt32(&sc.closed, 1)
			return
		}
	}
}

func (s *tcpSrv) stop() {
	atomic.StoreInt32(&s.stopping, 1)
	close(s.stopCh)
	s.ln.Close()
	s.mu.Lock()
	for _, sc := range s.conns {
		sc.c.Close()
	}
	s.mu.Unlock()
	s.wg.Wait()
}

func runC07TCP(c *Ctx, prop string) {
	rounds := c.Pick(40, 500)
	procs := c.Arg("procs", "?")
	logger := rig.NewCapLogger(nil)
	logger.Discard = func(r *rig.LogRecord) bool { return true }
	ioOpt := rig.DeadOpt{IOWaitBlocked: true}
	for idx := 0; idx < rounds; idx++ {
		if !c.Want("tcp", idx) {
			continue
		}
		r := rig.Rand(c.Seed, "C07tcp", procs, idx)
		garbage := rig.LibGoroIDs() // what earlier, already reported, stuck rounds of this process left behind
		holdOpen := r.Intn(2) == 0
		cycles := 1 + r.Intn(3)
		tracking := r.Intn(2) == 0
		useCtx := r.Intn(2) == 0
		srv, err := newTCPSrv(holdOpen)
		if err != nil {
			c.R.Note("loopback TCP is not available here (" + err.Error() + "): the loopback scenarios were skipped")
			c.R.Count("loopback_unavailable", 1)
			return
		}
		causes := []string{"close", "cancel", "deadline", "server-close", "server-reset", "bgclose"}
		if !useCtx {
			causes = []string{"close", "server-close", "server-reset", "bgclose"}
		}
		c.J.Log("CASE %s hold-open=%v cycles=%d tracking=%v ctx=%v", Case("tcp", idx), holdOpen, cycles, tracking, useCtx)
		cfg := client.NewConfig("me", "ident", "Real Name")
		cfg.Server = srv.ln.Addr().String()
		cfg.Flood = true
		cfg.PingFreq = 0
		conn := client.Client(cfg)
		if tracking {
			conn.EnableStateTracking()
		}
		var nDisc, nReg int64
		discCh := make(chan struct{}, 16)
		conn.HandleFunc(client.DISCONNECTED, func(_ *client.Conn, l *client.Line) { atomic.AddInt64(&nDisc, 1); discCh <- struct{}{} })
		conn.HandleFunc(client.REGISTER, func(_ *client.Conn, l *client.Line) { atomic.AddInt64(&nReg, 1) })
		conn.HandleBG("BGCLOSE", client.HandlerFunc(func(cc *client.Conn, l *client.Line) { cc.Close() }))
		got := make(chan string, 1024)
		conn.HandleFunc("TCPL", func(_ *client.Conn, l *client.Line) {
			select {
			case got <- l.Raw:
			default:
			}
		})
		viol := func(kind, detail string, dump string) {
			w := map[string]interface{}{}
			if dump != "" {
				w["dump"] = dump
			}
			c.R.Violate(rig.Violation{Sig: strings.ToLower(prop) + "|tcp-" + kind, Detail: fmt.Sprintf("%s (loopback TCP, server keeps socket open after end of stream: %v, tracking=%v)", detail, holdOpen, tracking), Case: Case("tcp", idx), Witness: w})
		}
		ok := true
		for cy := 0; cy < cycles && ok; cy++ {
			cause := causes[r.Intn(len(causes))]
			var cancel context.CancelFunc
			var cerr error
			connected := watched(func() {
				if useCtx {
					var ctx context.Context
					if cause == "deadline" {
						// this connection lives until its context's deadline (the next one is made without any)
						ctx, cancel = context.WithTimeout(context.Background(), time.Second)
					} else {
						ctx, cancel = context.WithCancel(context.Background())
					}
					cerr = conn.ConnectContext(ctx)
				} else {
					cerr = conn.Connect()
				}
			})
			if !connected {
				ds := rig.ProveDeadOpt(WaitShort, ioOpt)
				if ds.Dead {
					viol("connect-never-returns|"+ds.Signature, fmt.Sprintf("cycle %d: Connect never returns; dead state %s", cy, ds.Signature), ds.Dump)
				} else {
					c.R.Inconcl(fmt.Sprintf("%s: Connect did not return (%s)", Case("tcp", idx), ds.Reason))
				}
				ok = false
				break
			}
			if cerr != nil {
				if cy == 0 {
					c.R.Inconcl(fmt.Sprintf("%s: first connect over loopback failed: %v", Case("tcp", idx), cerr))
				} else {
					viol("reconnect-failed", fmt.Sprintf("cycle %d: Connect after a completed disconnect failed: %v", cy, cerr), "")
				}
				ok = false
				break
			}
			var sc *tcpSrvConn
			select {
			case sc = <-srv.accepted:
			case <-time.After(WaitLong):
				c.R.Inconcl(fmt.Sprintf("%s: the server never saw the connection", Case("tcp", idx)))
				ok = false
			}
			if !ok {
				break
			}
			// registration must arrive on the new socket
			if !waitUntil(func() bool {
				for _, l := range sc.snapshot() {
					if strings.HasPrefix(l, "USER ") {
						return true
					}
				}
				return false
			}) {
				viol("registration-never-sent", fmt.Sprintf("cycle %d: no USER line reached the server on the new connection; it got %q", cy, sc.snapshot()), "")
				ok = false
				break
			}
			// some traffic both ways
			nIn, nOut := r.Intn(40), r.Intn(40)
			var b []byte
			b = append(b, ":srv 001 me :Welcome\r\n"...)
			for k := 0; k < nIn; k++ {
				b = append(b, fmt.Sprintf(":srv TCPL %d %d\r\n", cy, k)...)
			}
			sc.c.Write(b)
			for k := 0; k < nOut; k++ {
				conn.Raw(fmt.Sprintf("OUT %d %d", cy, k))
			}
			if r.Intn(2) == 0 {
				time.Sleep(time.Duration(r.Intn(2000)) * time.Microsecond)
			}
			closeRet := make(chan struct{})
			switch cause {
			case "close":
				go func() { conn.Close(); close(closeRet) }()
			case "cancel":
				cancel()
				close(closeRet)
			case "deadline":
				close(closeRet) // nothing to do: the context's deadline ends the connection
			case "bgclose":
				// the application closes the connection from a background handler (the one kind of handler of a
				// server line from which that is allowed)
				sc.c.Write([]byte(":srv BGCLOSE now\r\n"))
				close(closeRet)
			case "server-close":
				sc.c.Close()
				close(closeRet)
			case "server-reset":
				if tc, isTCP := sc.c.(*net.TCPConn); isTCP {
					tc.SetLinger(0)
				}
				sc.c.Close()
				close(closeRet)
			}
			done := make(chan struct{})
			go func() { <-discCh; <-closeRet; close(done) }()
			if !waitChOpt(done, func() rig.DeadOpt { return ioOpt }) {
				ds := rig.ProveDeadOpt(WaitShort, ioOpt)
				for try := 0; try < 20 && !ds.Dead && strings.HasPrefix(ds.Reason, "census changed"); try++ {
					ds = rig.ProveDeadOpt(WaitShort, ioOpt)
				}
				if ds.Dead {
					kind := "teardown-stuck|"
					if prop == "C06" {
						kind = "disconnected-never|"
					}
					viol(kind+ds.Signature, fmt.Sprintf("cycle %d: the disconnect (%s) never completes - Close returned and DISCONNECTED delivered; dead state %s", cy, cause, ds.Signature), ds.Dump)
				} else {
					c.R.Inconcl(fmt.Sprintf("%s: disconnect (%s) did not complete (%s)", Case("tcp", idx), cause, ds.Reason))
				}
				ok = false
				break
			}
			if cancel != nil {
				cancel()
			}
			c.R.Class(fmt.Sprintf("tcp|%s|hold-open=%v|procs=%s", cause, holdOpen, procs))
		}
		if ok {
			c.R.Eval(1)
			c.R.Count("loopback_connections", int64(cycles))
			// nothing of the library is left (the server's goroutines are the harness's own)
			if leak, clean := rig.WaitNoLibExcept(garbage, WaitShort, 400); !clean {
				var desc []string
				for _, g := range leak {
					desc = append(desc, g.LibRole())
				}
				viol("goroutine-leak|"+strings.Join(uniq(desc), ","), fmt.Sprintf("after the last DISCONNECTED %d library goroutines remain", len(leak)), "")
			}
			if prop == "C06" {
				if d, rg := atomic.LoadInt64(&nDisc), atomic.LoadInt64(&nReg); d != int64(cycles) || rg != int64(cycles) {
					viol("event-counts", fmt.Sprintf("%d connections over loopback: REGISTER fired %d times, DISCONNECTED %d times", cycles, rg, d), "")
				}
			}
		}
		srv.stop()
		if !ok && (c.R.NumViolations() > 6 || len(c.R.Inconclusive) > 0) {
			return
		}
	}
}
