package props

import (
	"fmt"
	"reflect"
	"strings"
	"sync"
	"sync/atomic"
	"time"

	"github.com/anishathalye/porcupine"
	"github.com/fluffle/goirc/state"

	"verif/harness/model"
	"verif/harness/rig"
)

func init() {
	register(&Property{
		ID:    "C14",
		Yield: true,
		Rule: "(i) aliasing: along PRNG operation histories every value returned by every Tracker method is deep-copied, then scribbled over (every field, both mode structs, maps: overwrite/insert/delete, writes through *ChanPrivs) " +
			"and the full query sweep must still equal the relational model; values returned earlier must still equal their deep copy after later tracker operations; (ii) the race detector watches 3..8 goroutines calling all methods " +
			"on one tracker (a report with both stacks in goirc/state is a violation); (iii) short timed concurrent histories (3..6 goroutines x 6..10 calls over 3 nicks x 2 channels, call/return ticks from one atomic clock) are checked for " +
			"linearizability against the C12 model with porcupine. Concurrent callers format the snapshots they were given (String()) and the tracker itself. During every concurrent history a neighbouring tracker of the same process is hammered by two goroutines; the tracker's String() listing is held and re-read after later operations. Copies, scribbles and comparisons of returned values are made by reflection (every settable leaf incl. slices and their spare capacity, nested pointers, maps), and for one scribble in three the tracker's own answers over the whole universe are compared with what they were just before; a formatting logger is installed and a tracker call that never returns is reported with a dead-state proof. distinct_nontrivial = distinct (kind, method whose return value was scribbled | pair of operation kinds that overlapped in time with at least one mutator).",
		Assumptions: []string{
			"operations whose outcome the statement leaves open (see C12) are not generated in concurrent histories",
			"porcupine checker timeout (60 s per history) would be reported as inconclusive",
		},
		RaceClaim: func(rep string) bool { return raceBothIn(rep, "goirc/state.") },
		Plan: func(tier string, seed int64) []Batch {
			// (the same 1500 / 6000 histories as one batch would run, over three processes)
			bs := splitBatches("aliasq", 3, false, 1, map[string]string{"mode": "alias"})
			if tier == "thorough" {
				bs = append(bs, splitBatches("alias", 6, false, 1, map[string]string{"mode": "alias", "heavy": "1"})...)
			}
			for _, p := range []int{2, 4, 16} {
				bs = append(bs, Batch{Name: fmt.Sprintf("conc-p%d", p), Args: map[string]string{"mode": "conc", "procs": fmt.Sprint(p)}, Race: true, Procs: p, Weight: min(p, 4)})
			}
			if tier == "thorough" {
				for i := 0; i < 6; i++ {
					bs = append(bs, Batch{Name: fmt.Sprintf("conc-x%d", i), Args: map[string]string{"mode": "conc", "procs": "8", "salt": fmt.Sprint(i)}, Race: i%2 == 0, Procs: 8, Weight: 3})
				}
			}
			return bs
		},
		Run: runC14,
	})
}

func copyPrivMap(m map[string]*state.ChanPrivs) map[string]*state.ChanPrivs {
	if m == nil {
		return nil
	}
	out := map[string]*state.ChanPrivs{}
	for k, v := range m {
		if v == nil {
			out[k] = nil
		} else {
			x := *v
			out[k] = &x
		}
	}
	return out
}

func deepCopyRet(r model.TRet) model.TRet {
	return reflCopy(reflect.ValueOf(r)).Interface().(model.TRet)
}

func scribblePrivs(p *state.ChanPrivs) {
	if p != nil {
		p.Owner, p.Admin, p.Op, p.HalfOp, p.Voice = !p.Owner, !p.Admin, !p.Op, !p.HalfOp, !p.Voice
	}
}

func scribbleMap(m map[string]*state.ChanPrivs) {
	if m == nil {
		return
	}
	var keys []string
	for k, v := range m {
		scribblePrivs(v)
		keys = append(keys, k)
	}
	sortStrings(keys)
	for i, k := range keys {
		switch i % 3 {
		case 0:
			delete(m, k)
		case 1:
			m[k] = &state.ChanPrivs{Owner: true, Voice: true}
		}
	}
	m["scribbled"] = &state.ChanPrivs{Op: true}
	m["me"] = &state.ChanPrivs{Admin: true}
}

// scribble changes everything reachable from a returned value (reflScribble: every field of the snapshots, of
// their mode structs and whatever those contain, both kinds of membership map, the privilege structs).
func scribble(r model.TRet) {
	if r.Nick != nil {
		reflScribble(reflect.ValueOf(r.Nick), 0)
	}
	if r.Chan != nil {
		reflScribble(reflect.ValueOf(r.Chan), 0)
	}
	if r.Privs != nil {
		reflScribble(reflect.ValueOf(r.Privs), 0)
	}
}

// c14Dump renders everything the tracker answers about the name universe.
func c14Dump(st state.Tracker) string {
	// (the listing walks maps, so its line order differs from call to call: compared as a sorted set of lines)
	ls := strings.Split(st.String(), "\n")
	sortStrings(ls)
	var b strings.Builder
	b.WriteString(strings.Join(ls, "\n"))
	for _, n := range c12BigNicks {
		b.WriteString("\nn:" + n + "=")
		reflPrint(&b, reflect.ValueOf(st.GetNick(n)), 0)
	}
	for _, ch := range c12BigChans {
		b.WriteString("\nc:" + ch + "=")
		reflPrint(&b, reflect.ValueOf(st.GetChannel(ch)), 0)
	}
	b.WriteString("\nme=")
	reflPrint(&b, reflect.ValueOf(st.Me()), 0)
	return b.String()
}

func retDeepEq(a, b model.TRet) bool {
	return model.RetString(a) == model.RetString(b) && reflect.DeepEqual(a, b)
}

func runC14(c *Ctx) {
	// a logger that formats its arguments like any real one (the tracker logs from inside its critical sections), and
	// a watch that ends the worker with a proof when one of its own calls into the tracker never returns
	formatted := rig.InstallFormattingLogger()
	defer func() { c.R.Count("log_records_formatted", formatted()) }()
	c.WatchTrackerCalls("c14")
	switch c.Arg("mode", "") {
	case "alias":
		runC14Alias(c)
	case "conc":
		runC14Conc(c)
	}
}

type heldVal struct {
	op   model.TOp
	val  model.TRet
	copy model.TRet
	step int
}

type heldString struct {
	s, copy string
	step    int
}

func firstDiff(a, b string) int {
	for i := 0; i < len(a) && i < len(b); i++ {
		if a[i] != b[i] {
			return i
		}
	}
	return min(len(a), len(b))
}

func runC14Alias(c *Ctx) {
	part, parts := c.ArgInt("part", 0), c.ArgInt("parts", 1)
	total := c.Pick(1500, 6000)
	if c.Arg("heavy", "") == "1" {
		total = 30000
	}
	per := total / parts
	for i := 0; i < per; i++ {
		idx := part*per + i
		if !c.Want("alias", idx) {
			continue
		}
		r := rig.Rand(c.Seed, "C14", "alias", c.Arg("heavy", ""), idx)
		st := state.NewTracker("me")
		m := model.NewTModel("me")
		n := 100 + r.Intn(300)
		var held []heldVal
		var heldStr []heldString
		var trace []model.TOp
		failed := false
		for k := 0; k < n && !failed; k++ {
			op := c12RandOp(r, m)
			if op.Kind == "ChannelModes" && m.Unspecified(op.A[0], op.A[1], op.A[2:]) {
				continue
			}
			trace = append(trace, op)
			got := model.RunOnTracker(st, op)
			m.Apply(op, got.Nick == nil)
			c.R.Eval(1)
			tail := func() string {
				from := 0
				if len(trace) > 25 {
					from = len(trace) - 25
				}
				return opsString(trace[from:])
			}
			// (b) values returned earlier are unaffected by this operation - the tracker's listing (a string) included
			for _, h := range heldStr {
				if h.s != h.copy {
					c.R.Violate(rig.Violation{
						Sig:    "c14|earlier-value-changed|String",
						Detail: fmt.Sprintf("the string returned by String() at step %d reads differently after later operation %s (first difference near byte %d)", h.step, op, firstDiff(h.s, h.copy)),
						Case:   Case("alias", idx), Witness: tail(),
					})
					failed = true
					break
				}
			}
			if k%7 == 3 && !failed {
				s1 := st.String()
				heldStr = append(heldStr, heldString{s: s1, copy: strings.Clone(s1), step: k})
				if len(heldStr) > 6 {
					heldStr = heldStr[1:]
				}
			}
			for _, h := range held {
				if !retDeepEq(h.val, h.copy) {
					c.R.Violate(rig.Violation{
						Sig:    "c14|earlier-value-changed|" + h.op.Kind,
						Detail: fmt.Sprintf("value returned by %s at step %d changed from %s to %s after later operation %s", h.op, h.step, model.RetString(h.copy), model.RetString(h.val), op),
						Case:   Case("alias", idx), Witness: tail(),
					})
					failed = true
					break
				}
			}
			if failed {
				break
			}
			if got.Nick != nil || got.Chan != nil || got.Privs != nil {
				// keep a pristine second result for (b), scribble over the first for (a)
				if op.Kind == "GetNick" || op.Kind == "GetChannel" || op.Kind == "Me" || op.Kind == "IsOn" {
					again := model.RunOnTracker(st, op)
					held = append(held, heldVal{op: op, val: again, copy: deepCopyRet(again), step: k})
					if len(held) > 40 {
						held = held[1:]
					}
				}
				// (the tracker compared with itself around the scribble, for one scribble in three: it covers what the model
				// does not know of - the model sweep below runs after every one)
				selfCmp := (idx+k)%3 == 0
				before := ""
				if selfCmp {
					before = c14Dump(st)
				}
				scribble(got)
				c.R.Class("scribbled|" + op.Kind)
				if selfCmp && before != c14Dump(st) {
					c.R.Violate(rig.Violation{
						Sig:    "c14|scribble-leaked|" + op.Kind,
						Detail: fmt.Sprintf("after mutating the value returned by %s the tracker's own answers (every nick and channel of the universe, and its listing) differ from what they were just before", op),
						Case:   Case("alias", idx), Witness: tail(),
					})
					failed = true
					break
				}
				if d := model.Sweep(st, m, c12BigNicks, c12BigChans); d != "" {
					c.R.Violate(rig.Violation{
						Sig:    "c14|scribble-leaked|" + op.Kind,
						Detail: fmt.Sprintf("after mutating the value returned by %s the tracker answers differently: %s", op, d),
						Case:   Case("alias", idx), Witness: tail(),
					})
					failed = true
				}
			}
		}
		if idx%53 == 0 {
			from := 0
			if len(trace) > 10 {
				from = len(trace) - 10
			}
			c.R.Sample(map[string]interface{}{"alias_history_tail": opsString(trace[from:]), "length": len(trace)})
		}
	}
}

// ---- concurrency ----

var (
	c14Nicks = []string{"me", "a", "b"}
	c14Chans = []string{"#x", "#y"}
)

func c14RandOp(r interface{ Intn(int) int }) model.TOp {
	n := func() string { return c14Nicks[r.Intn(len(c14Nicks))] }
	ch := func() string { return c14Chans[r.Intn(len(c14Chans))] }
	switch r.Intn(20) {
	case 0, 1:
		return model.TOp{Kind: "NewNick", A: []string{[]string{"a", "b"}[r.Intn(2)]}}
	case 2:
		return model.TOp{Kind: "NewChannel", A: []string{ch()}}
	case 3, 4, 5:
		return model.TOp{Kind: "Associate", A: []string{ch(), n()}}
	case 6, 7:
		return model.TOp{Kind: "Dissociate", A: []string{ch(), n()}}
	case 8:
		return model.TOp{Kind: "ReNick", A: []string{n(), n()}}
	case 9:
		return model.TOp{Kind: "DelNick", A: []string{n()}}
	case 10:
		return model.TOp{Kind: "DelChannel", A: []string{ch()}}
	case 11:
		return model.TOp{Kind: "ChannelModes", A: [][]string{{ch(), "+o", n()}, {ch(), "-o", n()}, {ch(), "+v", n()}, {ch(), "+k", "key"}, {ch(), "-k"}, {ch(), "+l", "5"}, {ch(), "+s"}, {ch(), "-s"}}[r.Intn(8)]}
	case 12:
		return model.TOp{Kind: "Topic", A: []string{ch(), []string{"t1", "t2"}[r.Intn(2)]}}
	case 13:
		return model.TOp{Kind: "NickInfo", A: []string{n(), "i", "h", []string{"n1", "n2"}[r.Intn(2)]}}
	case 14:
		return model.TOp{Kind: "NickModes", A: []string{n(), []string{"+i", "-i", "+o"}[r.Intn(3)]}}
	case 15:
		return model.TOp{Kind: "GetNick", A: []string{n()}}
	case 16:
		return model.TOp{Kind: "GetChannel", A: []string{ch()}}
	case 17:
		return model.TOp{Kind: "IsOn", A: []string{ch(), n()}}
	case 18:
		if r.Intn(6) == 0 {
			return model.TOp{Kind: "Wipe"}
		}
		if r.Intn(2) == 0 {
			return model.TOp{Kind: "String"} // the debugging dump reads every structure: watched by the race detector
		}
		return model.TOp{Kind: "Me"}
	default:
		return model.TOp{Kind: "GetNick", A: []string{n()}}
	}
}

func isMutator(k string) bool {
	switch k {
	case "GetNick", "GetChannel", "IsOn", "Me", "String":
		return false
	}
	return true
}

type c14In struct {
	Op model.TOp
}

type c14Out struct {
	Ret string
	Raw model.TRet
}

// trackerPorcupineModel is the sequential specification: the C12 model with
// its state encoded canonically as a string.
func trackerPorcupineModel(init *model.TModel) porcupine.Model {
	var mu sync.Mutex
	cache := map[string]*model.TModel{}
	ic := init.Canon()
	cache[ic] = init
	return porcupine.Model{
		Init: func() interface{} { return ic },
		Step: func(st, in, out interface{}) (bool, interface{}) {
			mu.Lock()
			base := cache[st.(string)]
			mu.Unlock()
			m := base.Clone()
			op := in.(c14In).Op
			o := out.(c14Out)
			want := m.Apply(op, false)
			if !model.RetEq(op.Kind, o.Raw, want) {
				return false, st
			}
			cn := m.Canon()
			mu.Lock()
			if _, ok := cache[cn]; !ok {
				cache[cn] = m
			}
			mu.Unlock()
			return true, cn
		},
		Equal: func(a, b interface{}) bool { return a.(string) == b.(string) },
		DescribeOperation: func(in, out interface{}) string {
			return in.(c14In).Op.String() + " -> " + out.(c14Out).Ret
		},
	}
}

func runC14Conc(c *Ctx) {
	total := c.Pick(1500, 20000)
	procs := c.Arg("procs", "?")
	salt := c.Arg("salt", "")
	clock := rig.NewLog()
	for idx := 0; idx < total; idx++ {
		if !c.Want("conc", idx) {
			continue
		}
		r := rig.Rand(c.Seed, "C14", "conc", procs, salt, idx)
		c.J.Log("CASE %s", Case("conc", idx))
		st := state.NewTracker("me")
		m0 := model.NewTModel("me")
		// a sequential prefix so that histories start from a populated state
		for k := r.Intn(8); k > 0; k-- {
			op := c14RandOp(r)
			got := model.RunOnTracker(st, op)
			m0.Apply(op, got.Nick == nil)
		}
		ng := 3 + r.Intn(4)
		if idx%10 == 9 {
			ng = 8 // race-detector oriented: more goroutines, judged by porcupine only if small enough
		}
		per := 6 + r.Intn(5)
		plans := make([][]model.TOp, ng)
		for g := range plans {
			for k := 0; k < per; k++ {
				plans[g] = append(plans[g], c14RandOp(r))
			}
		}
		var mu sync.Mutex
		var ops []porcupine.Operation
		start := make(chan struct{})
		var wg sync.WaitGroup
		// a second tracker of the same process (another client's) is busy at the same time: trackers share nothing,
		// so what happens there can neither show up in this one's answers nor race with it
		st2 := state.NewTracker("neighbour")
		nbStop := make(chan struct{})
		var nbWG sync.WaitGroup
		var nbBad atomic.Value
		for g := 0; g < 2; g++ {
			nbWG.Add(1)
			go func(g int) {
				defer nbWG.Done()
				rr := rig.Rand(c.Seed, "C14nb", procs, salt, idx, g)
				<-start
				for k := 0; ; k++ {
					select {
					case <-nbStop:
						return
					default:
					}
					n := fmt.Sprintf("nb%d_%d", g, rr.Intn(6))
					switch rr.Intn(5) {
					case 0:
						st2.NewNick(n)
						st2.NickInfo(n, "id"+n, "host."+n, "Real "+n)
					case 1:
						if d := st2.DelNick(n); d != nil && d.Nick != n {
							nbBad.Store(fmt.Sprintf("DelNick(%q) on the neighbouring tracker returned the snapshot of %q", n, d.Nick))
						}
					case 2:
						st2.NewChannel("#nb")
						st2.Associate("#nb", n)
					case 3:
						if x := st2.GetNick(n); x != nil && (x.Nick != n || (x.Ident != "" && x.Ident != "id"+n)) {
							nbBad.Store(fmt.Sprintf("GetNick(%q) on the neighbouring tracker returned %q / ident %q", n, x.Nick, x.Ident))
						}
					default:
						_ = st2.String()
					}
				}
			}(g)
		}
		for g := 0; g < ng; g++ {
			wg.Add(1)
			go func(g int) {
				defer wg.Done()
				local := make([]porcupine.Operation, 0, per)
				<-start
				for _, op := range plans[g] {
					t0 := clock.Tick()
					ret := model.RunOnTracker(st, op)
					cp := deepCopyRet(ret)
					t1 := clock.Tick()
					// using a private snapshot (here: formatting it) needs no lock, whatever other goroutines do
					if ret.Nick != nil {
						_ = ret.Nick.String()
					}
					if ret.Chan != nil {
						_ = ret.Chan.String()
					}
					if ret.Privs != nil {
						_ = ret.Privs.String()
					}
					if g == 0 {
						_ = st.String()
					}
					local = append(local, porcupine.Operation{ClientId: g, Input: c14In{op}, Call: t0, Output: c14Out{Ret: model.RetString(cp), Raw: cp}, Return: t1})
				}
				mu.Lock()
				ops = append(ops, local...)
				mu.Unlock()
			}(g)
		}
		close(start)
		wg.Wait()
		close(nbStop)
		nbWG.Wait()
		if v, _ := nbBad.Load().(string); v != "" {
			c.R.Violate(rig.Violation{Sig: "c14|neighbouring-tracker-disturbed", Detail: v + " (two trackers of one process used at the same time)", Case: Case("conc", idx)})
		}
		c.R.Eval(1)
		c.R.Count("concurrent_calls", int64(len(ops)))
		// overlap statistics
		overl := 0
		for i := range ops {
			for j := i + 1; j < len(ops); j++ {
				a, b := ops[i], ops[j]
				if a.ClientId != b.ClientId && a.Call < b.Return && b.Call < a.Return {
					ka, kb := a.Input.(c14In).Op.Kind, b.Input.(c14In).Op.Kind
					if isMutator(ka) || isMutator(kb) {
						overl++
						if ka > kb {
							ka, kb = kb, ka
						}
						c.R.Class("overlap|" + ka + "~" + kb)
					}
				}
			}
		}
		if overl > 0 {
			c.R.Count("histories_with_overlapping_mutation", 1)
		}
		if ng > 6 {
			continue // too wide for the NP-hard check; the race detector was the monitor here
		}
		res, info := porcupine.CheckOperationsVerbose(trackerPorcupineModel(m0), ops, 60*time.Second)
		switch res {
		case porcupine.Ok:
			c.R.Count("histories_linearizable", 1)
		case porcupine.Unknown:
			c.R.Inconcl(fmt.Sprintf("%s: porcupine timed out on a history of %d operations", Case("conc", idx), len(ops)))
		case porcupine.Illegal:
			_ = info
			var hs []string
			for _, o := range ops {
				hs = append(hs, fmt.Sprintf("g%d [%d,%d] %s -> %s", o.ClientId, o.Call, o.Return, o.Input.(c14In).Op, o.Output.(c14Out).Ret))
			}
			c.R.Violate(rig.Violation{
				Sig:     "c14|not-linearizable",
				Detail:  fmt.Sprintf("history of %d concurrent tracker calls (%d goroutines, start state %s) has no linearization consistent with the relational model", len(ops), ng, m0.Canon()),
				Case:    Case("conc", idx),
				Witness: hs,
			})
		}
		if idx%61 == 0 {
			var hs []string
			for i, o := range ops {
				if i < 12 {
					hs = append(hs, fmt.Sprintf("g%d [%d,%d] %s", o.ClientId, o.Call, o.Return, o.Input.(c14In).Op))
				}
			}
			c.R.Sample(map[string]interface{}{"concurrent_history_head": hs, "goroutines": ng, "calls": len(ops), "overlapping_pairs_with_mutator": overl})
		}
	}
}
