package props

import (
	"fmt"
	"strings"
	"sync"
	"sync/atomic"
	"time"

	"github.com/fluffle/goirc/client"

	"verif/harness/rig"
)

func init() {
	register(&Property{
		ID:    "C17",
		Yield: true,
		Rule: "a reactive scripted server holds 'the nick I use for this client' and plays scripts over {433 during registration x0..6, 001 with the requested or a different nick, client NICK confirmed, refused once/twice then confirmed, " +
			"NICK forced by the server, NICK of other users to/from look-alike names, a server-side respelling of the client's nick in letter case only}; exhaustively for short scripts (collisions 0..3 x 2 welcomes x all event sequences up to length 3 or 4) and by PRNG up to length 40; tracking on/off (tracked sessions with and without a channel), " +
			"generators {default, append '_', fixed-length rotation, identity, a stateful fallback list}; every consultation of a custom generator is recorded and a collision must be answered from exactly one consultation made with the refused nick. At every marker Me().Nick must equal the server's nick; Me() and Config().Me must be non-nil at every marker and inside every harness handler " +
			"(Config().Me is sampled before anything calls Me()); after each 433 the next NICK on the wire must be generator(refused). DefaultNewNick is checked for all 256 last bytes x prefixes of length 0..3. " +
			"Every other script installs its generator through Config() after Client(); a background NICK handler checks Me() for the client's own changes. Every fifth collision of the PRNG scripts is reported while the output queue is full; a fifth of the PRNG scripts switch state tracking on in the middle. Two clients of one process built from incomplete configurations are renamed independently; PRNG scripts may switch tracking off and on again. Linger rounds: after a collision and welcome the link drops, the DISCONNECTED handler reconnects and stays busy while the new connection is welcomed under another nick and renamed; once the old teardown has finished Me() and Config().Me must carry the new connection's nick. distinct_nontrivial = distinct (tracking, joined, generator, collisions, welcome kind, event-kind sequence prefix of length 3) cells; a script is non-trivial when it has a collision or a later change.",
		Assumptions: []string{"the client never asks for the nick it already has; before the welcome only the wire (NICK after 433) is judged, not Me()"},
		Plan: func(tier string, seed int64) []Batch {
			bs := []Batch{{Name: "defnick", Args: map[string]string{"mode": "defnick"}}}
			bs = append(bs, splitBatches("exh", 4, true, 2, map[string]string{"mode": "exh"})...)
			n := 2
			if tier == "thorough" {
				n = 10
			}
			bs = append(bs, splitBatches("prng", n, true, 2, map[string]string{"mode": "prng"})...)
			bs = append(bs, Batch{Name: "linger-p4", Args: map[string]string{"procs": "4", "mode": "linger"}, Race: true, Procs: 4, Weight: 2})
			return bs
		},
		Run: runC17,
	})
}

var c17Gens = map[string]func(string) string{
	"default":    nil, // library default
	"underscore": func(s string) string { return s + "_" },
	"rotate": func(s string) string {
		if s == "" {
			return "x"
		}
		return s[1:] + s[:1] + ""
	},
	"identity": func(s string) string { return s },
}

var c17GenNames = []string{"default", "underscore", "rotate", "identity", "stateful"}

type c17Script struct {
	Tracking   bool
	Toggle     bool // tracked at first; tracking is switched off after the first event following the welcome (and the rest is judged untracked)
	Joined     bool // tracked: join a channel after the welcome (the JOIN handler calls Me())
	ToggleOn   int  // untracked at first; tracking is switched on after this many events following the welcome (0 = never)
	Gen        string
	Collisions int
	WelcomeDif bool
	Events     []byte // C confirmed, R refused once, D refused twice, F forced, O other user's change
}

func (sc c17Script) String() string {
	return fmt.Sprintf("tracking=%v toggle-off=%v toggle-on-after=%d joined=%v gen=%s collisions=%d welcome-different=%v events=%s", sc.Tracking, sc.Toggle, sc.ToggleOn, sc.Joined, sc.Gen, sc.Collisions, sc.WelcomeDif, string(sc.Events))
}

func runC17(c *Ctx) {
	// delay injection through the capturing logger: the library warns about a nick change on connect
	// between reading the welcome and storing the nick — stretch exactly that window
	lgr := rig.NewCapLogger(nil)
	lgr.Discard = func(r *rig.LogRecord) bool { return true }
	lgr.OnRec = func(r *rig.LogRecord) {
		if strings.HasPrefix(r.Format, "Server changed our nick on connect") {
			for k := 0; k < 50; k++ {
				runtimeGosched()
			}
			time.Sleep(300 * time.Microsecond)
		}
	}
	switch c.Arg("mode", "") {
	case "linger":
		runLingerRounds(c, "C17")
	case "defnick":
		runC17DefNick(c)
	case "exh":
		part, parts := c.ArgInt("part", 0), c.ArgInt("parts", 1)
		maxLen := c.Pick(3, 4)
		var seqs [][]byte
		var rec func(cur []byte)
		rec = func(cur []byte) {
			seqs = append(seqs, append([]byte(nil), cur...))
			if len(cur) == maxLen {
				return
			}
			for _, k := range []byte("CRDFOK") {
				rec(append(cur, k))
			}
		}
		rec(nil)
		idx := 0
		for _, tr := range []int{0, 1, 2, 3} {
			for _, g := range c17GenNames {
				for col := 0; col <= 3; col++ {
					if g == "stateful" && tr == 2 {
						continue // keep the exhaustive grid within budget: the stateful generator runs in three of four tracking modes
					}
					for _, wd := range []bool{false, true} {
						for _, sq := range seqs {
							if idx%parts == part && c.Want("exh", idx) {
								sc := c17Script{Tracking: tr > 0, Joined: tr == 2, Toggle: tr == 3, Gen: g, Collisions: col, WelcomeDif: wd, Events: sq}
								if !c17Run(c, "exh", idx, sc) {
									return
								}
							}
							idx++
						}
					}
				}
			}
		}
		c.R.Exhaustive[fmt.Sprintf("all scripts: 4 tracking modes (off, on, on+joined, on then switched off after the first event) x 4 generators x collisions 0..3 x 2 welcomes x event sequences of length <= %d over {C,R,D,F,O,K}", maxLen)] = c.Only == ""
	case "prng":
		part, parts := c.ArgInt("part", 0), c.ArgInt("parts", 1)
		total := c.Pick(1500, 60000)
		per := total / parts
		for i := 0; i < per; i++ {
			idx := part*per + i
			if !c.Want("prng", idx) {
				continue
			}
			r := rig.Rand(c.Seed, "C17", "prng", idx)
			tr := r.Intn(5)
			sc := c17Script{Tracking: tr > 0 && tr < 4, Joined: tr == 2, Toggle: tr == 3, Gen: c17GenNames[r.Intn(len(c17GenNames))], Collisions: r.Intn(7), WelcomeDif: r.Intn(2) == 0}
			for k := r.Intn(41); k > 0; k-- {
				sc.Events = append(sc.Events, "CRDFOK"[r.Intn(6)])
			}
			if tr == 4 && len(sc.Events) > 0 {
				sc.ToggleOn = 1 + r.Intn(len(sc.Events))
			}
			if tr == 3 && len(sc.Events) > 2 && r.Intn(2) == 0 {
				// tracked, switched off after the first event, and on again later (whatever happened in between)
				sc.ToggleOn = 2 + r.Intn(len(sc.Events)-1)
			}
			if !c17Run(c, "prng", idx, sc) {
				return
			}
		}
	}
}

func c17FlipCase(s string) string {
	for i := 0; i < len(s); i++ {
		switch c := s[i]; {
		case c >= 'a' && c <= 'z':
			return s[:i] + string(c-32) + s[i+1:]
		case c >= 'A' && c <= 'Z':
			return s[:i] + string(c+32) + s[i+1:]
		}
	}
	return s
}

// c17TwoClients: two clients of one process, built from configurations that lack a usable identity (Client() gives
// both the same default nick), state tracking off. Each of them knows its own nick: what a server does to one of them
// (collision answers, a welcome under another nick, a forced change) never shows in the other's Me().
func c17TwoClients(c *Ctx) {
	for idx := 0; idx < c.Pick(12, 120); idx++ {
		if !c.Want("two", idx) {
			continue
		}
		c.J.Log("CASE %s", Case("two", idx))
		mk := func() (*Session, *rig.MemConn, bool) {
			s := NewSession(SessionOpts{Flood: true, Mutate: func(cfg *client.Config) {
				switch idx % 3 {
				case 0:
					cfg.Me = nil
				case 1:
					cfg.Me.Nick = ""
				default:
					cfg.Me.Ident = ""
				}
			}})
			mc, err := s.Connect()
			if err != nil || !AwaitRegistration(mc) {
				return nil, nil, false
			}
			return s, mc, true
		}
		a, mca, ok1 := mk()
		b, mcb, ok2 := mk()
		if !ok1 || !ok2 {
			c.R.Inconcl(fmt.Sprintf("%s: connect failed", Case("two", idx)))
			return
		}
		viol := func(detail string) {
			c.R.Violate(rig.Violation{Sig: "c17|two-clients-share-a-nick", Detail: detail, Case: Case("two", idx)})
		}
		nickOf := func(s *Session) string {
			if me := s.Conn.Me(); me != nil {
				return me.Nick
			}
			return "<nil>"
		}
		start := nickOf(a)
		if nickOf(b) != start {
			viol(fmt.Sprintf("two clients built from the same incomplete configuration start as %q and %q", start, nickOf(b)))
		}
		// B is welcomed under its default nick; A under another one, and is then renamed by the server
		mcb.SendLine(fmt.Sprintf(":srv 001 %s :Welcome", start))
		mca.SendLine(":srv 001 alpha :Welcome alpha!ident@host")
		if !a.FgMarker(mca) || !b.FgMarker(mcb) {
			c.R.Inconcl(fmt.Sprintf("%s: marker not reached", Case("two", idx)))
			return
		}
		if nickOf(a) != "alpha" || nickOf(b) != start {
			viol(fmt.Sprintf("client A was welcomed as alpha, client B as %q: A reports %q, B reports %q", start, nickOf(a), nickOf(b)))
		}
		mca.SendLine(":alpha!ident@host NICK beta")
		mcb.SendLine(fmt.Sprintf(":%s!ident@host NICK gamma", start))
		if !a.FgMarker(mca) || !b.FgMarker(mcb) {
			c.R.Inconcl(fmt.Sprintf("%s: marker not reached", Case("two", idx)))
			return
		}
		if nickOf(a) != "beta" || nickOf(b) != "gamma" {
			viol(fmt.Sprintf("the servers renamed A to beta and B to gamma: A reports %q, B reports %q", nickOf(a), nickOf(b)))
		}
		c.R.Eval(1)
		c.R.Count("two_client_rounds", 1)
		go a.Conn.Close()
		go b.Conn.Close()
		a.Release()
		b.Release()
	}
}

func runC17DefNick(c *Ctx) {
	c17TwoClients(c)
	prefixes := []string{""}
	alpha := []string{"a", "Z", "9", "_", "}", "\xff"}
	for l := 1; l <= 3; l++ {
		var next []string
		for _, p := range prefixes {
			if len(p) == l-1 {
				for _, a := range alpha {
					next = append(next, p+a)
				}
			}
		}
		prefixes = append(prefixes, next...)
	}
	idx := 0
	for _, p := range prefixes {
		for b := 0; b < 256; b++ {
			in := p + string([]byte{byte(b)})
			out := client.DefaultNewNick(in)
			c.R.Eval(1)
			bad := ""
			switch {
			case out == in:
				bad = "equal to the input"
			case len(out) != len(in):
				bad = fmt.Sprintf("length %d, input length %d", len(out), len(in))
			case out[:len(out)-1] != in[:len(in)-1]:
				bad = "differs before the last byte"
			}
			if bad != "" {
				c.R.Violate(rig.Violation{Sig: "c17|defaultnewnick", Detail: fmt.Sprintf("DefaultNewNick(%q) = %q: %s", in, out, bad), Case: Case("defnick", idx)})
			}
			cls := "other"
			switch {
			case b >= '0' && b <= '9':
				cls = "digit"
			case b >= 'A' && b <= '}':
				cls = "A-}"
			}
			c.R.Class(fmt.Sprintf("defnick|last=%s|prefixlen=%d", cls, len(p)))
			idx++
		}
	}
	c.R.Sample(map[string]string{"DefaultNewNick(\"nick9\")": client.DefaultNewNick("nick9"), "DefaultNewNick(\"nick}\")": client.DefaultNewNick("nick}")})
	c.R.Exhaustive["DefaultNewNick over 256 last bytes x all prefixes of length 0..3 over 6 bytes"] = true
}

// c17Run plays one script; returns false when the batch should stop.
func c17Run(c *Ctx, gen string, idx int, sc c17Script) bool {
	c.J.Log("CASE %s %s", Case(gen, idx), sc.String())
	genf := c17Gens[sc.Gen]
	// every consultation of the generator is recorded: a collision must be answered from exactly one of them
	type genCall struct{ in, out string }
	var genMu sync.Mutex
	var genCalls []genCall
	if sc.Gen == "stateful" {
		// not a pure function of its argument: a fallback list that advances with every call
		n := 0
		genf = func(old string) string {
			n++
			return fmt.Sprintf("fb%d", n)
		}
	}
	if genf != nil {
		inner := genf
		genf = func(old string) string {
			out := inner(old)
			genMu.Lock()
			genCalls = append(genCalls, genCall{old, out})
			genMu.Unlock()
			return out
		}
	}
	// every other script installs the generator only after the client exists, through Config()
	lateGen := genf != nil && idx%2 == 1
	s := NewSession(SessionOpts{Tracking: sc.Tracking, Flood: true, Mutate: func(cfg *client.Config) {
		if genf != nil && !lateGen {
			cfg.NewNick = genf
		}
	}})
	defer s.Release()
	if lateGen {
		s.Conn.Config().NewNick = genf
	}
	if genf == nil {
		genf = client.DefaultNewNick
	}
	// expected answer to a collision on nick x; for recorded generators: the output of the single call made for it
	expectAfter433 := func(x string, callsBefore int) (string, string) {
		if sc.Gen == "default" {
			return client.DefaultNewNick(x), ""
		}
		genMu.Lock()
		calls := append([]genCall(nil), genCalls[callsBefore:]...)
		genMu.Unlock()
		if len(calls) != 1 {
			return "", fmt.Sprintf("the generator was consulted %d times for one collision on %q (calls: %v)", len(calls), x, calls)
		}
		if calls[0].in != x {
			return calls[0].out, fmt.Sprintf("the generator was given %q, the refused nick is %q", calls[0].in, x)
		}
		return calls[0].out, ""
	}
	nCalls := func() int { genMu.Lock(); defer genMu.Unlock(); return len(genCalls) }
	conn := s.Conn
	viol := func(kind, detail string) {
		c.R.Violate(rig.Violation{Sig: "c17|" + kind, Detail: detail + " — script: " + sc.String(), Case: Case(gen, idx)})
	}
	// Me() stores a fresh snapshot in Config().Me and returns that field: two unsynchronised callers can be handed each
	// other's snapshot. That is no part of this property, so the harness serialises its own calls.
	var meMu sync.Mutex
	// nil checks inside handlers: Config().Me first (Me() rewrites it)
	var nilSeen [2]int32
	probe := func(cc *client.Conn, l *client.Line) {
		meMu.Lock()
		defer meMu.Unlock()
		if cc.Config().Me == nil {
			atomic.StoreInt32(&nilSeen[0], 1)
		}
		if cc.Me() == nil {
			atomic.StoreInt32(&nilSeen[1], 1)
		}
	}
	for _, ev := range []string{"433", "NICK", client.CONNECTED} {
		conn.HandleFunc(ev, probe)
	}
	// background handlers of the client's own NICK lines: the change has been applied before they start, so Me()
	// reports the new nick (or, when later lines have been applied meanwhile, one the server gave it after that)
	var histMu sync.Mutex
	var hist []string
	announce := func(n string) { histMu.Lock(); hist = append(hist, n); histMu.Unlock() }
	var bgStale atomic.Value
	var nickSent, bgDone int64 // NICK lines sent by the server / background invocations finished
	bgQuiet := func() bool {
		return waitUntil(func() bool { return atomic.LoadInt64(&bgDone) >= atomic.LoadInt64(&nickSent) })
	}
	conn.HandleBG("NICK", client.HandlerFunc(func(cc *client.Conn, l *client.Line) {
		defer atomic.AddInt64(&bgDone, 1)
		if len(l.Args) == 0 {
			return
		}
		meMu.Lock()
		me := cc.Me()
		var meNick string
		if me != nil {
			meNick = me.Nick
		}
		meMu.Unlock()
		if me == nil {
			return
		}
		histMu.Lock()
		h := append([]string(nil), hist...)
		histMu.Unlock()
		p := -1
		for i := len(h) - 1; i >= 1; i-- {
			if h[i] == l.Args[0] && h[i-1] == l.Nick {
				p = i
				break
			}
		}
		if p < 0 {
			return // somebody else's change
		}
		for _, x := range h[p:] {
			if x == meNick {
				return
			}
		}
		bgStale.Store(fmt.Sprintf("a background handler for the client's own change %q -> %q got Me().Nick = %q", l.Nick, l.Args[0], meNick))
	}))
	var connectedNick atomic.Value
	conn.HandleFunc(client.CONNECTED, func(cc *client.Conn, l *client.Line) {
		meMu.Lock()
		if me := cc.Me(); me != nil {
			connectedNick.Store(me.Nick)
		}
		meMu.Unlock()
	})
	mc, err := s.Connect()
	if err != nil {
		c.R.Inconcl("connect: " + err.Error())
		return false
	}
	from := 0
	nextNick := func() (string, bool) {
		i := mc.WaitLineFrom(WaitLong, from, func(l string) bool { return strings.HasPrefix(l, "NICK ") })
		if i < 0 {
			return "", false
		}
		from = i + 1
		return strings.TrimPrefix(mc.Lines()[i], "NICK "), true
	}
	stuck := func(what string) bool {
		ds := rig.ProveDead(WaitShort)
		if ds.Dead {
			viol("no-nick-request", fmt.Sprintf("%s: the client never sent the expected NICK; dead state %s", what, ds.Signature))
			CloseWatched(conn)
			return c.R.NumViolations() < 10
		}
		c.R.Inconcl(fmt.Sprintf("%s: %s not seen (%s)", Case(gen, idx), what, ds.Reason))
		return false
	}
	req, ok := nextNick()
	if !ok {
		return stuck("registration NICK")
	}
	if req != "me" {
		viol("registration-nick", fmt.Sprintf("registration asked for nick %q, configured %q", req, "me"))
	}
	for k := 0; k < sc.Collisions; k++ {
		before := nCalls()
		if gen == "prng" && (idx+k)%5 == 0 {
			// the collision is reported while the client's output queue is full (the server is not reading and the
			// application is sending): the answer is owed all the same, it goes out once there is room
			mc.Stall(0)
			fillDone := make(chan struct{})
			go func() {
				for q := 0; q < 40; q++ {
					conn.Raw(fmt.Sprintf("PRIVMSG #elsewhere :filler %d", q))
				}
				close(fillDone)
			}()
			time.Sleep(300 * time.Microsecond)
			mc.SendLine(fmt.Sprintf(":srv 433 * %s :Nickname is already in use", req))
			time.Sleep(300 * time.Microsecond)
			mc.Resume()
			if !waitCh(fillDone) {
				return stuck("the application's sends around a collision")
			}
			c.R.Count("collisions_against_a_full_output_queue", 1)
		} else {
			mc.SendLine(fmt.Sprintf(":srv 433 * %s :Nickname is already in use", req))
		}
		got, ok := nextNick()
		if !ok {
			return stuck(fmt.Sprintf("NICK after collision %d", k+1))
		}
		if !s.WireMarker(mc) { // the 433 has been handled completely
			return stuck("PONG after a collision")
		}
		want, complaint := expectAfter433(req, before)
		if complaint != "" {
			viol("generator-use", complaint)
		} else if got != want {
			viol("collision-answer", fmt.Sprintf("433 for %q was answered with NICK %q, generator yields %q", req, got, want))
		}
		req = got
	}
	srvNick := req
	if sc.WelcomeDif {
		srvNick = "given"
	}
	welcomeText := []string{
		fmt.Sprintf("Welcome to the network %s!ident@host", srvNick),
		fmt.Sprintf("Welcome to the Internet Relay Network %s", srvNick),
		"Welcome",
		fmt.Sprintf("Welcome %s!~id@some.host.example", srvNick),
	}[(idx+sc.Collisions)%4]
	announce(srvNick)
	mc.SendLine(fmt.Sprintf(":srv 001 %s :%s", srvNick, welcomeText))
	if sc.Joined {
		mc.SendLine(fmt.Sprintf(":%s!ident@host JOIN #c", srvNick))
	}
	check := func(when string) bool {
		if !s.FgMarker(mc) {
			ds := rig.ProveDead(WaitShort)
			if ds.Dead {
				viol("delivery-stopped", fmt.Sprintf("marker %s not reached; dead state %s", when, ds.Signature))
				return false
			}
			c.R.Inconcl(fmt.Sprintf("%s: marker %s not reached (%s)", Case(gen, idx), when, ds.Reason))
			return false
		}
		meMu.Lock()
		defer meMu.Unlock()
		cfgMe := conn.Config().Me
		if cfgMe == nil {
			viol("config-me-nil", fmt.Sprintf("Config().Me is nil %s", when))
		}
		me := conn.Me()
		if me == nil {
			viol("me-nil", fmt.Sprintf("Me() is nil %s", when))
			return true
		}
		if me.Nick != srvNick {
			viol("me-nick-wrong", fmt.Sprintf("%s: Me().Nick = %q, the server uses %q", when, me.Nick, srvNick))
		}
		if cfgMe != nil && !sc.Tracking && cfgMe.Nick != srvNick {
			viol("config-me-nick-wrong", fmt.Sprintf("%s: Config().Me.Nick = %q, the server uses %q", when, cfgMe.Nick, srvNick))
		}
		if atomic.SwapInt32(&nilSeen[0], 0) == 1 {
			viol("config-me-nil", fmt.Sprintf("Config().Me was nil inside a handler (%s)", when))
		}
		if atomic.SwapInt32(&nilSeen[1], 0) == 1 {
			viol("me-nil", fmt.Sprintf("Me() was nil inside a handler (%s)", when))
		}
		if v, _ := bgStale.Swap("").(string); v != "" {
			viol("bg-handler-stale-nick", v+" ("+when+")")
		}
		return true
	}
	if !check("after the welcome") {
		return c.R.NumViolations() < 30
	}
	if n, _ := connectedNick.Load().(string); n != srvNick {
		viol("connected-handler-nick", fmt.Sprintf("inside the CONNECTED handler Me().Nick was %q, the welcome said %q", n, srvNick))
	}
	others := []string{"bob", srvNick + "x", "x" + srvNick, strings.ToUpper(srvNick), "me", "given"}
	for i, e := range sc.Events {
		when := fmt.Sprintf("after event %d (%c)", i, e)
		bgQuiet() // background handlers of earlier NICK lines have finished: their reads do not overlap later changes
		switch e {
		case 'C', 'R', 'D':
			want := fmt.Sprintf("q%dz", i) // never the current nick, never a generator output of an earlier request
			conn.Nick(want)
			got, ok := nextNick()
			if !ok {
				return stuck("NICK requested by the client")
			}
			if got != want {
				viol("nick-request", fmt.Sprintf("conn.Nick(%q) put NICK %q on the wire", want, got))
			}
			refusals := map[byte]int{'C': 0, 'R': 1, 'D': 2}[e]
			cur := got
			for k := 0; k < refusals; k++ {
				before := nCalls()
				mc.SendLine(fmt.Sprintf(":srv 433 %s %s :Nickname is already in use", srvNick, cur))
				nx, ok := nextNick()
				if !ok {
					return stuck("NICK after a refused change")
				}
				if !s.WireMarker(mc) {
					return stuck("PONG after a refused change")
				}
				if w, complaint := expectAfter433(cur, before); complaint != "" {
					viol("generator-use", complaint)
				} else if nx != w {
					viol("collision-answer", fmt.Sprintf("433 for %q was answered with NICK %q, generator yields %q", cur, nx, w))
				}
				cur = nx
				// the server has not changed anything yet: the client must still report its old nick
				if !check(fmt.Sprintf("after event %d: change refused, retry %q pending", i, cur)) {
					return c.R.NumViolations() < 30
				}
			}
			announce(cur)
			atomic.AddInt64(&nickSent, 1)
			mc.SendLine(fmt.Sprintf(":%s!ident@host NICK :%s", srvNick, cur))
			srvNick = cur
		case 'K':
			// the server respells the client's nick: letter case only
			n := c17FlipCase(srvNick)
			if n == srvNick {
				n = fmt.Sprintf("forcedk%d", i)
			}
			announce(n)
			atomic.AddInt64(&nickSent, 1)
			mc.SendLine(fmt.Sprintf(":%s!ident@host NICK %s", srvNick, n))
			srvNick = n
		case 'F':
			n := fmt.Sprintf("forced%d", i)
			announce(n)
			atomic.AddInt64(&nickSent, 1)
			mc.SendLine(fmt.Sprintf(":%s!ident@host NICK %s", srvNick, n))
			srvNick = n
		case 'O':
			a := others[i%len(others)]
			b := others[(i+3)%len(others)]
			if a == srvNick {
				a = "bob"
			}
			if b == srvNick {
				b = "bobby"
			}
			atomic.AddInt64(&nickSent, 1)
			mc.SendLine(fmt.Sprintf(":%s!o@h NICK :%s", a, b))
		}
		if !check(when) {
			return c.R.NumViolations() < 30
		}
		if sc.ToggleOn == i+1 {
			bgQuiet()
			conn.EnableStateTracking() // a tracker created now starts from the nick the client has at this moment
			sc.Tracking = true
			if !check("after switching state tracking on") {
				return c.R.NumViolations() < 30
			}
		}
		if sc.Toggle && i == 0 {
			bgQuiet() // (switching tracking off while handlers are still using the client is not part of any script)
			conn.DisableStateTracking()
			sc.Tracking = false
			if !check("after switching state tracking off") {
				return c.R.NumViolations() < 30
			}
		}
	}
	if bgQuiet() {
		if v, _ := bgStale.Swap("").(string); v != "" {
			viol("bg-handler-stale-nick", v+" (end of script)")
		}
	}
	CloseWatched(conn)
	c.R.Eval(1)
	if sc.Collisions > 0 || len(sc.Events) > 0 {
		pre := string(sc.Events)
		if len(pre) > 3 {
			pre = pre[:3]
		}
		c.R.Class(fmt.Sprintf("t=%v|tog=%v|j=%v|%s|col=%d|wd=%v|%s", sc.Tracking, sc.Toggle, sc.Joined, sc.Gen, min(sc.Collisions, 4), sc.WelcomeDif, pre))
	}
	if idx%499 == 0 {
		c.R.Sample(map[string]interface{}{"script": sc.String(), "final_server_nick": srvNick})
	}
	return true
}
