package props

import (
	"fmt"
	"reflect"
	"strings"
	"sync"
	"sync/atomic"
	"time"

	"github.com/fluffle/goirc/client"

	"verif/harness/model"
	"verif/harness/rig"
)

func init() {
	register(&Property{
		ID:    "C15",
		Yield: true,
		Rule: "events (well-formed lines with and without tags, 0..15 arguments) are sent to a verb with 1..6 foreground and 0..6 background harness handlers; every invocation first compares its line with the " +
			"expected parse, records the addresses of its Args backing array and Tags map, scribbles over everything (every Args element, appended elements, every tag, new tags, scalar fields), meets the " +
			"other invocations of the event at a barrier and then checks that its own line carries only its own marks; addresses must be pairwise distinct; the race detector watches the handlers' writes. " +
			"Crowded sessions with 9..16 handlers per set. Built-in mode: events the library's own handlers work on (CAP, 353 incl. the three-argument form, 352, MODE, membership verbs, numerics, greetings waiting at connect) and REGISTER, with two foreground and one background user handler per verb comparing their line with the parse of what was sent. Also: tag sections that are present but empty, sessions whose recovery function edits the line it is handed after a victim's panic, sessions with exactly one handler per set. An event is non-trivial when >= 2 scribbling invocations were open at the same time; distinct_nontrivial = distinct (tags?, argument count, #fg, #bg, GOMAXPROCS) cells among those.",
		Assumptions: []string{"invocations of one event meet at a barrier with a 2 s escape; events whose barrier escaped are counted, not judged for foreign marks"},
		RaceClaim: func(rep string) bool {
			return raceBothIn(rep, "props.c15", "props.runC15") ||
				// the copies are made inside the dispatcher: two dispatches that share anything there share lines
				raceBothIn(rep, "client.(*hSet).dispatch", "client.(*Line).Copy", "client.(*hNode).Handle", "props.runC15")
		},
		Plan: func(tier string, seed int64) []Batch {
			var bs []Batch
			for _, p := range []int{1, 4, 16} {
				bs = append(bs, Batch{Name: fmt.Sprintf("p%d", p), Args: map[string]string{"procs": fmt.Sprint(p)}, Race: true, Procs: p, Weight: min(p, 4)})
			}
			for _, p := range []int{4, 16} {
				bs = append(bs, Batch{Name: fmt.Sprintf("builtin-p%d", p), Args: map[string]string{"procs": fmt.Sprint(p), "mode": "builtin"}, Race: true, Procs: p, Weight: min(p, 4)})
			}
			if tier == "thorough" {
				for i := 0; i < 6; i++ {
					bs = append(bs, Batch{Name: fmt.Sprintf("x%d", i), Args: map[string]string{"procs": "8", "salt": fmt.Sprint(i), "heavy": "1"}, Race: i < 2, Procs: 8, Weight: 3})
				}
			}
			return bs
		},
		Run: runC15,
	})
}

type c15Inv struct {
	h        int
	argsPtr  uintptr
	argsLen  int
	tagsPtr  uintptr
	entryBad string
	afterBad string
	origArgs []string     // the slice as handed over (appending below re-allocates; the original array must stay referenced too)
	line     *client.Line // kept alive until the event is judged: otherwise the allocator may legitimately reuse the storage of a finished invocation
}

func runC15(c *Ctx) {
	if c.Arg("mode", "") == "builtin" {
		runC15Builtin(c)
		return
	}
	events := c.Pick(4000, 40000)
	if c.Arg("heavy", "") == "1" {
		events = 70000
	}
	procs, salt := c.Arg("procs", "?"), c.Arg("salt", "")
	const perSession = 100
	for base := 0; base < events; base += perSession {
		r0 := rig.Rand(c.Seed, "C15", procs, salt, "sess", base)
		nFg := 1 + r0.Intn(6)
		nBg := r0.Intn(7)
		if (base/perSession)%8 == 2 {
			nFg, nBg = 1, 1 // lone handlers: one per set
		}
		if (base/perSession)%8 == 5 {
			nFg, nBg = 9+r0.Intn(8), 9+r0.Intn(8) // crowded sets: more handlers than any pool of workers would have
		}
		total := nFg + nBg
		// the recovery function is one more party that is handed a line: in every other session it edits the line it
		// is given (as one that redacts before logging would), and a foreground victim panics on every third event
		var panicky int32
		s := NewSession(SessionOpts{Flood: true, Mutate: func(cfg *client.Config) {
			if (base/perSession)%2 == 1 {
				cfg.Recover = func(_ *client.Conn, l *client.Line) {
					if v := recover(); v != nil {
						for i := range l.Args {
							l.Args[i] = "RECOVERED"
						}
						for k := range l.Tags {
							l.Tags[k] = "RECOVERED"
						}
						if l.Tags != nil {
							l.Tags["new-recovered"] = "RECOVERED"
						}
						l.Nick, l.Ident, l.Host, l.Src, l.Cmd, l.Raw = "R", "R", "R", "R", "R", "R"
					}
				}
			}
		}})
		if (base/perSession)%2 == 1 {
			s.Conn.HandleFunc("CPY", func(_ *client.Conn, l *client.Line) {
				if atomic.LoadInt32(&panicky) == 1 {
					panic("c15 victim")
				}
			})
		}

		var mu sync.Mutex
		escapeAfter := int64(2 * time.Second)
		var expect *client.Line
		var invs []*c15Inv
		var arrived int
		var barrier chan struct{}
		var open, maxOpen int
		escaped := false

		handler := func(h int) client.HandlerFunc {
			return func(_ *client.Conn, l *client.Line) {
				inv := &c15Inv{h: h, argsLen: len(l.Args), line: l}
				mu.Lock()
				exp := expect
				open++
				if open > maxOpen {
					maxOpen = open
				}
				mu.Unlock()
				// 1. equal to the parsed event
				want := deepCopyLine(exp)
				want.Time = l.Time
				if len(want.Args) == 0 && len(l.Args) == 0 {
					want.Args = l.Args
				}
				if !reflect.DeepEqual(want, l) {
					inv.entryBad = fmt.Sprintf("got %+v, want %+v", *l, *want)
				}
				// 2. storage identity
				if cap(l.Args) > 0 {
					inv.argsPtr = reflect.ValueOf(l.Args).Pointer()
					inv.origArgs = l.Args
				}
				if l.Tags != nil {
					inv.tagsPtr = reflect.ValueOf(l.Tags).Pointer()
				}
				// 3. scribble
				mark := fmt.Sprintf("H%d", h)
				for i := range l.Args {
					l.Args[i] = fmt.Sprintf("%s-a%d", mark, i)
				}
				l.Args = append(l.Args, mark+"-extra")
				for k := range l.Tags {
					l.Tags[k] = mark
				}
				if l.Tags != nil {
					l.Tags["new-"+mark] = mark
				}
				l.Nick, l.Ident, l.Host, l.Src, l.Cmd, l.Raw = mark, mark, mark, mark, mark, mark
				// 4. barrier
				mu.Lock()
				arrived++
				b := barrier
				if arrived == total {
					close(b)
				}
				mu.Unlock()
				// poll with Sleep (never a timer-select: a goroutine parked in select
				// counts as permanently blocked for the dead-state oracle)
				for dl := time.Now().Add(time.Duration(atomic.LoadInt64(&escapeAfter))); ; {
					select {
					case <-b:
					default:
						if time.Now().Before(dl) {
							time.Sleep(20 * time.Microsecond)
							continue
						}
						mu.Lock()
						escaped = true
						mu.Unlock()
						// (a dispatcher that does not run all invocations of an event side by side makes every barrier
						// wait in vain: do not spend 2 s on each of the session's remaining events)
						atomic.StoreInt64(&escapeAfter, int64(30*time.Millisecond))
					}
					break
				}
				// 5. own marks only
				for i := 0; i < inv.argsLen; i++ {
					if l.Args[i] != fmt.Sprintf("%s-a%d", mark, i) {
						inv.afterBad = fmt.Sprintf("Args[%d] = %q after the barrier, this handler wrote %q", i, l.Args[i], fmt.Sprintf("%s-a%d", mark, i))
					}
				}
				if len(l.Args) != inv.argsLen+1 || l.Args[inv.argsLen] != mark+"-extra" {
					inv.afterBad = fmt.Sprintf("appended element is %q", l.Args[len(l.Args)-1])
				}
				for k, v := range l.Tags {
					if v != mark {
						inv.afterBad = fmt.Sprintf("tag %q = %q after the barrier, this handler wrote %q", k, v, mark)
					}
					if strings.HasPrefix(k, "new-") && k != "new-"+mark {
						inv.afterBad = fmt.Sprintf("foreign tag %q appeared in this handler's line", k)
					}
				}
				if l.Nick != mark || l.Cmd != mark || l.Raw != mark {
					inv.afterBad = "scalar fields changed after the barrier"
				}
				mu.Lock()
				invs = append(invs, inv)
				open--
				mu.Unlock()
			}
		}
		for h := 0; h < nFg; h++ {
			s.Conn.HandleFunc("CPY", handler(h))
		}
		for h := 0; h < nBg; h++ {
			s.Conn.HandleBG("cpy", handler(100+h))
		}
		mc, err := s.Connect()
		if err != nil {
			c.R.Inconcl("connect: " + err.Error())
			return
		}
		for i := 0; i < perSession && base+i < events; i++ {
			idx := base + i
			if !c.Want("ev", idx) {
				continue
			}
			r := rig.Rand(c.Seed, "C15", procs, salt, idx)
			m := model.RandMsg(r)
			m.CTCP = false
			m.Verb = []string{"CPY", "cpy", "Cpy"}[r.Intn(3)]
			if r.Intn(4) == 0 { // up to 15 arguments
				m.Middles = nil
				for k := r.Intn(15); k > 0; k-- {
					m.Middles = append(m.Middles, fmt.Sprintf("arg%d", k))
				}
				m.Spaces = nil
			}
			raw := m.Wire()
			if !m.HasTags && r.Intn(5) == 0 {
				// a tag section that is present but holds no tag: the parser yields an empty, non-nil tag map
				raw = []string{"@ ", "@; ", "@;; "}[r.Intn(3)] + raw
			}
			c.J.Log("CASE %s %q", Case("ev", idx), raw)
			exp := client.ParseLine(raw)
			if exp == nil {
				continue
			}
			if idx%3 == 0 {
				atomic.StoreInt32(&panicky, 1)
			} else {
				atomic.StoreInt32(&panicky, 0)
			}
			mu.Lock()
			expect = exp
			invs = nil
			arrived = 0
			barrier = make(chan struct{})
			maxOpen = 0
			escaped = false
			mu.Unlock()
			// the event is followed at once, in the same segment, by lines nobody handles: the receive goroutine parses
			// them while the event's background dispatch may not have taken its copies yet
			burst := raw + "\r\n"
			for k := r.Intn(4); k > 0; k-- {
				burst += fmt.Sprintf(":filler!f@f FILL f%d f%d :filler text %d\r\n", k, idx, k)
			}
			mc.SendBytes([]byte(burst))
			if !s.FgMarker(mc) {
				c.R.Inconcl(fmt.Sprintf("%s: marker not reached", Case("ev", idx)))
				return
			}
			// background invocations are not covered by the marker: wait for them
			waitUntil(func() bool {
				mu.Lock()
				defer mu.Unlock()
				return len(invs) >= total
			})
			mu.Lock()
			got := append([]*c15Inv(nil), invs...)
			mo := maxOpen
			esc := escaped
			mu.Unlock()
			c.R.Eval(1)
			c.R.Count("invocations", int64(len(got)))
			viol := func(kind, detail string) {
				c.R.Violate(rig.Violation{
					Sig:     "c15|" + kind,
					Detail:  fmt.Sprintf("event %q with %d foreground and %d background handlers (procs=%s): %s", clipS(raw), nFg, nBg, procs, detail),
					Case:    Case("ev", idx),
					Witness: map[string]interface{}{"raw": raw},
				})
			}
			if len(got) != total {
				// nothing of this client is still running? then the count is final
				rig.WaitNoLib(WaitShort, 200)
				mu.Lock()
				got = append([]*c15Inv(nil), invs...)
				mu.Unlock()
				bad := ""
				for _, inv := range got {
					if inv.entryBad != "" {
						bad = fmt.Sprintf("handler %d: %s", inv.h, inv.entryBad)
					}
				}
				switch {
				case bad != "":
					viol("entry-differs", bad)
				case len(got) != total:
					viol("invocation-count", fmt.Sprintf("%d handler invocations for an event with %d registered handlers (lines mixed up between events?)", len(got), total))
				}
				if len(got) != total {
					go s.Conn.Close()
					s.Release()
					if c.R.NumViolations() > 10 {
						return
					}
					break
				}
			}
			seenA := map[uintptr]int{}
			seenT := map[uintptr]int{}
			for _, inv := range got {
				if inv.entryBad != "" {
					viol("entry-differs", fmt.Sprintf("handler %d: %s", inv.h, inv.entryBad))
					break
				}
				if inv.afterBad != "" && !esc {
					viol("foreign-mark", fmt.Sprintf("handler %d: %s", inv.h, inv.afterBad))
					break
				}
				if inv.argsPtr != 0 {
					if o, ok := seenA[inv.argsPtr]; ok {
						viol("shared-args-storage", fmt.Sprintf("handlers %d and %d were given Args slices with the same backing array", o, inv.h))
						break
					}
					seenA[inv.argsPtr] = inv.h
				}
				if inv.tagsPtr != 0 {
					if o, ok := seenT[inv.tagsPtr]; ok {
						viol("shared-tags-storage", fmt.Sprintf("handlers %d and %d were given the same Tags map", o, inv.h))
						break
					}
					seenT[inv.tagsPtr] = inv.h
				}
			}
			if esc {
				c.R.Count("events_barrier_escaped", 1)
			}
			if mo >= 2 && !esc {
				ab := len(exp.Args)
				if ab > 4 {
					ab = 5
				}
				c.R.Class(fmt.Sprintf("tags=%v|args=%d|fg=%d|bg=%d|procs=%s", exp.Tags != nil, ab, nFg, nBg, procs))
				c.R.Count("events_with_concurrent_scribblers", 1)
			}
			if idx%211 == 0 {
				c.R.Sample(map[string]interface{}{"raw": clipS(raw), "fg_handlers": nFg, "bg_handlers": nBg, "max_open_at_once": mo, "args": len(exp.Args), "tags": len(exp.Tags)})
			}
		}
		go s.Conn.Close()
		s.Release()
	}
}

// deepCopyLine copies a line without relying on the library's Copy.
func deepCopyLine(l *client.Line) *client.Line {
	n := *l
	n.Args = append([]string(nil), l.Args...)
	if l.Tags != nil {
		n.Tags = map[string]string{}
		for k, v := range l.Tags {
			n.Tags[k] = v
		}
	}
	return &n
}
