package props

import "fmt"

func init() {
	register(&Property{
		ID: "C10",
		Rule: "inside a testing/synctest bubble (virtual clock, go1.26.8, race detector) a fresh client is fed PRNG sequences of 5..200 lines with lengths 0..510 (boundary lengths 0,1,119,120,121,509,510 favoured) and idle gaps from " +
			"{0, 1 ms, 0.5, 2, 5, 9.99, 10, 15, 60, 600 s}, Flood toggled only while the sender is idle; every write timestamp (taken in the transport's Write, on the client's own send goroutine) is compared with the reference recurrence " +
			"B <- max(0, B + c - (t - L)); hold c iff B > 10 s, c = 2 s + n/120 s, evaluated in interval arithmetic (n in [len, len+2], 1 us slack) so that neither CRLF counting nor division order is demanded; lines sent with Flood set " +
			"must not be delayed; the stated window bound is checked on every run of consecutive flood-protected lines as well. A sequence is non-trivial when the penalty crossed 10 s in both directions and floored at zero; " +
			"One step in eight is the PONG owed to a server PING (requested when the sender is idle). distinct_nontrivial = distinct (crossings up, crossings down, floorings, held bucket, length bucket) cells among those.",
		Assumptions: []string{
			"virtual time: the claim is about the library's arithmetic and sleeping discipline, not the kernel's timers; built with go1.26.8 instead of go1.23.5 (same source, different compiler)",
			"t for a line is max(issue time, completion of the previous write), exact in the bubble",
			"'per character' is read as per byte of the line (what Hybrid and the quantifier's 'line lengths 0..510' mean); a third of the lines consist of 2-, 3- or 4-byte characters",
			"a hung bubble would be inconclusive, never a violation",
		},
		Plan: func(tier string, seed int64) []Batch {
			var bs []Batch
			n := 8
			if tier == "thorough" {
				n = 16
			}
			for i := 0; i < n; i++ {
				bs = append(bs, Batch{Name: fmt.Sprintf("seq-%d", i), Kind: "synctest", Race: true, Weight: 1,
					Args: map[string]string{"test": "TestC10", "part": fmt.Sprint(i), "parts": fmt.Sprint(n)}})
			}
			return bs
		},
		Run: func(c *Ctx) {},
	})
}
