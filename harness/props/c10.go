package props

import (
	"fmt"
	"strings"
	"time"

	"verif/harness/rig"
)

func init() {
	register(&Property{
		ID: "C10",
		Rule: "inside a testing/synctest bubble (virtual clock, go1.26.8, race detector) a fresh client is fed PRNG sequences of 5..200 lines with lengths 0..510 (boundary lengths 0,1,119,120,121,509,510 favoured) and idle gaps from " +
			"{0, 1 ms, 0.5, 2, 5, 9.99, 10, 15, 60, 600 s}, Flood toggled only while the sender is idle; every write timestamp (taken in the transport's Write, on the client's own send goroutine) is compared with the reference recurrence " +
			"B <- max(0, B + c - (t - L)); hold c iff B > 10 s, c = 2 s + n/120 s, evaluated in interval arithmetic (n in [len, len+2], 1 us slack) so that neither CRLF counting nor division order is demanded; lines sent with Flood set " +
			"must not be delayed; the stated window bound is checked on every run of consecutive flood-protected lines as well. A sequence is non-trivial when the penalty crossed 10 s in both directions and floored at zero; " +
			"One step in eight is the PONG owed to a server PING (requested when the sender is idle). A third of the sequences negotiate capabilities (three registration lines); fewer written than issued lines after a million virtual seconds is a violation; real-time rounds close a connection during a hold, stay quiet past its end, reconnect and judge the first registration line against the penalty computed from the measured instants - once more under GODEBUG=asynctimerchan=1. Config.Timeout is drawn per sequence (1m, 0, 500ms, 3s, 5s: shorter than one line's charge and than the longest hold); the in-memory connection honours write deadlines. distinct_nontrivial = distinct (crossings up, crossings down, floorings, held bucket, length bucket) cells among those.",
		Assumptions: []string{
			"virtual time: the claim is about the library's arithmetic and sleeping discipline, not the kernel's timers; built with go1.26.8 instead of go1.23.5 (same source, different compiler)",
			"t for a line is max(issue time, completion of the previous write), exact in the bubble",
			"'per character' is read as per byte of the line (what Hybrid and the quantifier's 'line lengths 0..510' mean); a third of the lines consist of 2-, 3- or 4-byte characters",
			"a hung bubble would be inconclusive, never a violation",
		},
		Plan: func(tier string, seed int64) []Batch {
			var bs []Batch
			n := 8
			if tier == "thorough" {
				n = 16
			}
			for i := 0; i < n; i++ {
				bs = append(bs, Batch{Name: fmt.Sprintf("seq-%d", i), Kind: "synctest", Race: true, Weight: 1,
					Args: map[string]string{"test": "TestC10", "part": fmt.Sprint(i), "parts": fmt.Sprint(n)}})
			}
			// real time: the penalty is the client's, not the connection's - it is still owed after a reconnect
			bs = append(bs, Batch{Name: "reconnect-realtime", Args: map[string]string{"mode": "reconnect"}, Race: true, Procs: 4, Weight: 1})
			// the same under the timer-channel semantics a main module declaring go < 1.23 gets (the library's own
			// go.mod says 1.13): timers that were reset or abandoned may still deliver a stale tick there
			bs = append(bs, Batch{Name: "reconnect-realtime-oldtimers", Args: map[string]string{"mode": "reconnect", "godebug": "asynctimerchan=1"}, Race: true, Procs: 4, Weight: 1})
			return bs
		},
		Run: runC10Reconnect,
	})
}

// runC10Reconnect (real time, a handful of rounds of ~9 s): a connection is closed while a line is being held back, the
// client stays quiet until that hold would have ended, and connects again. The penalty has decayed in real time
// meanwhile and nothing else: whenever the arithmetic over the *measured* instants says it is still above 10 s by a
// clear margin when the new registration's first line is charged, that line is held for its own charge.
func runC10Reconnect(c *Ctx) {
	if c.Arg("mode", "") != "reconnect" {
		return
	}
	rounds := c.Pick(2, 8)
	for idx := 0; idx < rounds; idx++ {
		if !c.Want("reconnect", idx) {
			continue
		}
		r := rig.Rand(c.Seed, "C10reconnect", idx)
		n := 380 + r.Intn(100)
		c.J.Log("CASE %s len=%d", Case("reconnect", idx), n)
		s := NewSession(SessionOpts{Flood: false}) // flood protection on
		created := time.Now()
		mc, err := s.Connect()
		if err != nil || !AwaitRegistration(mc) {
			c.R.Inconcl("connect failed")
			return
		}
		charge := func(l int) time.Duration { return 2*time.Second + time.Duration(l)*time.Second/120 }
		var pen time.Duration
		for _, l := range mc.Lines() {
			pen += charge(len(l))
		}
		line := strings.Repeat("x", n)
		s.Conn.Raw(line) // written at once (penalty below 10 s), the next one is held
		s.Conn.Raw(line)
		if !mc.WaitLines(WaitLong, func(ls []string) bool { return len(ls) >= 3 }) {
			c.R.Inconcl("third line not seen")
			return
		}
		w := mc.Writes()
		t1 := w[len(w)-1].T // the second Raw line is charged right after this write
		pen = pen - t1.Sub(created) + charge(n)
		if pen < 0 {
			pen = 0
		}
		pen += charge(n) // the held line: the sender sleeps now
		time.Sleep(300 * time.Millisecond)
		if !CloseWatched(s.Conn) {
			c.R.Inconcl("Close did not return")
			return
		}
		// stay quiet until well after the aborted hold would have ended
		time.Sleep(charge(n) + 700*time.Millisecond - 300*time.Millisecond)
		mc2, err := s.Connect()
		t2 := time.Now()
		if err != nil {
			c.R.Inconcl("reconnect failed: " + err.Error())
			return
		}
		nickCharge := charge(len("NICK me"))
		penAtNick := pen - t2.Sub(t1) + nickCharge
		if !mc2.WaitLines(WaitLong, func(ls []string) bool { return len(ls) >= 1 }) {
			c.R.Inconcl("no line on the new connection")
			return
		}
		wrote := mc2.Writes()[0].T
		c.R.Eval(1)
		delay := wrote.Sub(t2)
		switch {
		case penAtNick > 10*time.Second+400*time.Millisecond:
			c.R.Class("reconnect|penalty-still-above-threshold")
			if delay < nickCharge-300*time.Millisecond {
				c.R.Violate(rig.Violation{Sig: "c10|not-held-after-reconnect", Detail: fmt.Sprintf("a connection was closed during a hold; %.2f s later the client reconnected with a penalty of about %.2f s (> 10 s) and wrote the first registration line after %.3f s instead of holding it for its charge of %.3f s", t2.Sub(t1).Seconds(), penAtNick.Seconds(), delay.Seconds(), nickCharge.Seconds()), Case: Case("reconnect", idx)})
			}
		case penAtNick < 10*time.Second-400*time.Millisecond:
			c.R.Class("reconnect|penalty-below-threshold")
			if delay > time.Second {
				c.R.Violate(rig.Violation{Sig: "c10|held-below-threshold-after-reconnect", Detail: fmt.Sprintf("the client reconnected with a penalty of about %.2f s (< 10 s) and still delayed its first line by %.3f s", penAtNick.Seconds(), delay.Seconds()), Case: Case("reconnect", idx)})
			}
		default:
			c.R.Count("reconnect_rounds_too_close_to_the_threshold_to_judge", 1)
		}
		go s.Conn.Close()
		s.Release()
	}
}
