package props

import (
	"fmt"
	"strings"
	"sync"
	"sync/atomic"
	"time"

	"github.com/fluffle/goirc/client"

	"verif/harness/rig"
)

func init() {
	register(&Property{
		ID:    "C04",
		Yield: true,
		Rule: "PRNG histories of Handle / HandleFunc / HandleBG / Remove / incoming event over 4 names x 3 letter-case variants x both handler sets. Sequential phase: all mutations happen between markers (foreground) and after the " +
			"permanently registered background sentinel of the previous event has run and its background invocations have finished, so the expected invocation multiset of every event is exact (snapshot-at-dispatch model); " +
			"mutations are also made from inside running handlers (self-removal, removal of first/middle/last/only sibling, registration under the same name, another name, another letter case): they must not disturb the siblings of the " +
			"current event and take effect for later events. Concurrent phase: 8 goroutines mutate while events flow; with call/return ticks a handler whose registration returned before the event's bytes were handed to the transport must " +
			"see it, one whose Remove returned before that must not, everything else may. A marker that is never reached is judged by a dead-state proof; the race detector watches hSet/hNode. " +
			"Event names are drawn per history: three alphabetic names of 2..9 letters (one letter rotating through the alphabet with the case index) in lower / UPPER / PRNG-mixed case, one numeric without built-in meaning; every third history uses fixed names. Teardown rounds: 20..100 events still being dispatched when the connection ends (Close, EOF, read error); per event the background handlers run exactly as often as the foreground handler. Same-value rounds: one pointer-typed handler registered 2..6 times in one or both sets under case variants of a name, removed one registration at a time; in the teardown rounds handlers register further handlers after the cause was injected. distinct_nontrivial = distinct (operation, list position, inside/outside a handler, set, case variant differs) tuples exercised, plus must/must-not judgement kinds in the concurrent phase.",
		Assumptions: []string{"each Remover is used once", "foreground handlers mutate only the foreground set from inside handlers, background handlers only the background set (cross-set mutations during the same event are 'may' by the statement)"},
		RaceClaim:   func(rep string) bool { return raceBothIn(rep, "client.(*hSet)", "client.(*hNode)") },
		Plan: func(tier string, seed int64) []Batch {
			var bs []Batch
			for _, p := range []int{1, 4, 16} {
				bs = append(bs, Batch{Name: fmt.Sprintf("seq-p%d", p), Args: map[string]string{"mode": "seq", "procs": fmt.Sprint(p)}, Race: true, Procs: p, Weight: min(p, 4)})
				bs = append(bs, Batch{Name: fmt.Sprintf("conc-p%d", p), Args: map[string]string{"mode": "conc", "procs": fmt.Sprint(p)}, Race: true, Procs: p, Weight: min(p, 4)})
			}
			if tier == "thorough" {
				for i := 0; i < 6; i++ {
					bs = append(bs, Batch{Name: fmt.Sprintf("seq-x%d", i), Args: map[string]string{"mode": "seq", "procs": "8", "salt": fmt.Sprint(i), "heavy": "1"}, Race: i < 2, Procs: 8, Weight: 3})
					bs = append(bs, Batch{Name: fmt.Sprintf("conc-x%d", i), Args: map[string]string{"mode": "conc", "procs": "8", "salt": fmt.Sprint(i), "heavy": "1"}, Race: i < 3, Procs: 8, Weight: 3})
				}
			}
			return bs
		},
		Run: runC04,
	})
}

var c04DefaultNames = [][]string{{"alpha", "ALPHA", "Alpha"}, {"beta", "BETA", "bEtA"}, {"gamma", "GAMMA", "Gamma"}, {"332", "332", "332"}}

// c04Names holds the 4 event names x 3 letter-case variants of the history being run (set at the start of each case,
// before any of its goroutines exist).
var c04Names = c04DefaultNames

// c04Reserved are verbs the library (or the harness) reacts to by itself.
var c04Reserved = map[string]bool{"PING": true, "PONG": true, "NICK": true, "CAP": true, "AUTHENTICATE": true, "CTCP": true, "CTCPREPLY": true,
	"PRIVMSG": true, "NOTICE": true, "JOIN": true, "PART": true, "KICK": true, "QUIT": true, "MODE": true, "TOPIC": true, "ERROR": true,
	"VMARK": true, "GO": true, "ACTION": true, "VERSION": true, "USER": true, "PASS": true, "WHO": true, "WHOIS": true, "INVITE": true,
	"OPER": true, "AWAY": true, "REGISTER": true, "CONNECTED": true, "DISCONNECTED": true}

// c04PickNames: every third history uses the fixed names; the others draw three alphabetic names (one of them
// containing the letter that rotates through the alphabet with the case index, so that all 26 letters - and the
// boundaries of any case-folding range - are covered) and one numeric without built-in meaning.
func c04PickNames(r interface{ Intn(int) int }, idx int) [][]string {
	if idx%3 == 0 {
		return c04DefaultNames
	}
	var out [][]string
	seen := map[string]bool{}
	for len(out) < 3 {
		n := 2 + r.Intn(8)
		b := make([]byte, n)
		for i := range b {
			b[i] = byte('a' + r.Intn(26))
		}
		if len(out) == 0 {
			b[r.Intn(n)] = byte('a' + idx%26)
		}
		lo := string(b)
		up := strings.ToUpper(lo)
		if c04Reserved[up] || seen[up] {
			continue
		}
		seen[up] = true
		mixed := []byte(lo)
		for i := range mixed {
			if r.Intn(2) == 0 {
				mixed[i] -= 'a' - 'A'
			}
		}
		out = append(out, []string{lo, up, string(mixed)})
	}
	num := fmt.Sprintf("%03d", 600+r.Intn(290))
	if num == "671" { // has a built-in (state tracking) handler
		num = "670"
	}
	return append(out, []string{num, num, num})
}

type c04Action struct {
	kind    string // "self" | "sibling" | "add"
	target  *c04H  // sibling to remove
	addName string // add: name variant to register under
	addH    *c04H  // add: the handler to register (pre-created)
}

type c04H struct {
	id     int
	bg     bool
	name   int // index into c04Names
	rem    client.Remover
	action atomic.Pointer[c04Action] // performed (once) during the next invocation
}

type c04Rig struct {
	conn *client.Conn
	mu   sync.Mutex
	inv  map[[2]int]int // (handler id, event no) -> invocations
	done int64          // completed background invocations (non-sentinel)
	sent map[int]int    // event no -> sentinel invocations
}

func (rg *c04Rig) handlerFunc(h *c04H) client.HandlerFunc {
	return func(cc *client.Conn, l *client.Line) {
		ev := 0
		if len(l.Args) > 0 {
			fmt.Sscanf(l.Args[0], "%d", &ev)
		}
		rg.mu.Lock()
		rg.inv[[2]int{h.id, ev}]++
		rg.mu.Unlock()
		if a := h.action.Swap(nil); a != nil {
			switch a.kind {
			case "self":
				h.rem.Remove()
			case "sibling":
				a.target.rem.Remove()
			case "add":
				rg.register(a.addH, a.addName)
			}
		}
		if h.bg {
			atomic.AddInt64(&rg.done, 1)
		}
	}
}

func (rg *c04Rig) register(h *c04H, nameVariant string) {
	f := rg.handlerFunc(h)
	switch {
	case h.bg:
		h.rem = rg.conn.HandleBG(nameVariant, f)
	case h.id%2 == 0:
		h.rem = rg.conn.Handle(nameVariant, f)
	default:
		h.rem = rg.conn.HandleFunc(nameVariant, f)
	}
}

func runC04(c *Ctx) {
	switch c.Arg("mode", "") {
	case "seq":
		runC04Seq(c)
	case "conc":
		runC04Conc(c)
	}
}

// c04Teardown: events still in flight when the connection ends. An event that was dispatched at all - its foreground
// handlers ran - is dispatched to the background handlers registered for it as well, exactly once, also when the
// connection is being closed at that moment; an event that was discarded reaches nobody.
func c04Teardown(c *Ctx, idx int, procs string) bool {
	r := rig.Rand(c.Seed, "C04", "teardown", procs, idx)
	s := NewSession(SessionOpts{Flood: true})
	defer s.Release()
	nEv := 20 + r.Intn(80)
	nBg := 1 + r.Intn(3)
	cause := []string{"close", "eof", "readerr"}[r.Intn(3)]
	slow := r.Intn(3)
	c.J.Log("CASE %s events=%d bg=%d cause=%s slow=%d", Case("teardown", idx), nEv, nBg, cause, slow)
	var mu sync.Mutex
	fg := map[int]int{}
	bg := map[[2]int]int{}
	var fgSeen int64
	var ending int32
	var lateRegs int64
	s.Conn.HandleFunc("TDN", func(cc *client.Conn, l *client.Line) {
		ev := 0
		fmt.Sscanf(l.Args[0], "%d", &ev)
		mu.Lock()
		fg[ev]++
		mu.Unlock()
		atomic.AddInt64(&fgSeen, 1)
		if atomic.LoadInt32(&ending) == 1 && ev%2 == 0 {
			// registering from inside a handler is allowed at any time - also while the connection is going down
			cc.HandleFunc(fmt.Sprintf("TDNX%d", ev), func(_ *client.Conn, _ *client.Line) {})
			atomic.AddInt64(&lateRegs, 1)
		}
		switch slow {
		case 1:
			for k := 0; k < 30; k++ {
				runtimeGosched()
			}
		case 2:
			time.Sleep(100 * time.Microsecond)
		}
	})
	for h := 0; h < nBg; h++ {
		h := h
		s.Conn.HandleBG("tdn", client.HandlerFunc(func(_ *client.Conn, l *client.Line) {
			ev := 0
			fmt.Sscanf(l.Args[0], "%d", &ev)
			mu.Lock()
			bg[[2]int{ev, h}]++
			mu.Unlock()
		}))
	}
	disc := make(chan struct{}, 1)
	s.Conn.HandleFunc(client.DISCONNECTED, func(_ *client.Conn, l *client.Line) { disc <- struct{}{} })
	mc, err := s.Connect()
	if err != nil {
		c.R.Inconcl("connect: " + err.Error())
		return false
	}
	var b []byte
	for e := 1; e <= nEv; e++ {
		b = append(b, fmt.Sprintf(":srv TDN %d\r\n", e)...)
	}
	mc.SendBytes(b)
	// end the connection once some of the events have been handled
	target := int64(r.Intn(nEv))
	waitUntil(func() bool { return atomic.LoadInt64(&fgSeen) >= target })
	atomic.StoreInt32(&ending, 1)
	switch cause {
	case "close":
		go s.Conn.Close()
	case "eof":
		mc.SendEOF()
	case "readerr":
		mc.SendErr(nil)
	}
	if !waitCh(chanOf(disc)) {
		if ds := rig.ProveDead(WaitShort); ds.Dead && (strings.Contains(ds.Dump, "client.(*Conn).HandleFunc(") || strings.Contains(ds.Dump, "client.(*Conn).Handle(")) {
			c.R.Violate(rig.Violation{Sig: "c04|registration-in-handler-deadlocks|" + ds.Signature, Detail: "a handler that registers another handler while the connection is being torn down never returns (and the teardown never completes): " + ds.Signature, Case: Case("teardown", idx), Witness: ds.Dump})
			return true
		}
		// (any other teardown that never completes is C07's subject)
		c.R.Inconcl(fmt.Sprintf("%s: no DISCONNECTED", Case("teardown", idx)))
		return false
	}
	if _, quiet := rig.WaitNoLib(WaitShort, 400); !quiet { // background dispatch goroutines included
		c.R.Inconcl(fmt.Sprintf("%s: library goroutines still running after DISCONNECTED", Case("teardown", idx)))
		return false
	}
	c.R.Eval(1)
	mu.Lock()
	defer mu.Unlock()
	nDisp := 0
	for e := 1; e <= nEv; e++ {
		f := fg[e]
		if f > 1 {
			c.R.Violate(rig.Violation{Sig: "c04|teardown-fg-twice", Detail: fmt.Sprintf("event %d ran its foreground handler %d times (connection ended by %s)", e, f, cause), Case: Case("teardown", idx)})
			return true
		}
		nDisp += f
		for h := 0; h < nBg; h++ {
			if g := bg[[2]int{e, h}]; g != f {
				c.R.Violate(rig.Violation{Sig: "c04|teardown-bg-mismatch", Detail: fmt.Sprintf("event %d (of %d, connection ended by %s after about %d events): its foreground handler ran %d times, background handler %d of %d ran %d times", e, nEv, cause, target, f, h, nBg, g), Case: Case("teardown", idx)})
				return true
			}
		}
	}
	c.R.Count("registrations_made_inside_handlers_during_teardown", atomic.LoadInt64(&lateRegs))
	c.R.Count("teardown_rounds", 1)
	c.R.Count("events_dispatched_around_teardown", int64(nDisp))
	return true
}

// c04Obj is a handler of a comparable type: registering the same value twice is two registrations.
type c04Obj struct{ n int64 }

func (o *c04Obj) Handle(_ *client.Conn, _ *client.Line) { atomic.AddInt64(&o.n, 1) }

// c04SameValue: one handler value (a pointer, comparable - unlike a func) registered several times, under one name in
// different letter case, in one set or both: every registration is invoked once per event and has its own Remover.
func c04SameValue(c *Ctx, idx int) bool {
	r := rig.Rand(c.Seed, "C04", "samevalue", idx)
	s := NewSession(SessionOpts{Flood: true})
	defer s.Release()
	o := &c04Obj{}
	nFg, nBg := r.Intn(4), r.Intn(4)
	if nFg+nBg < 2 {
		nFg = 2
	}
	c.J.Log("CASE %s fg=%d bg=%d", Case("samevalue", idx), nFg, nBg)
	var rems []client.Remover
	names := []string{"dup", "DUP", "Dup"}
	for k := 0; k < nFg; k++ {
		rems = append(rems, s.Conn.Handle(names[k%3], o))
	}
	for k := 0; k < nBg; k++ {
		rems = append(rems, s.Conn.HandleBG(names[(k+1)%3], o))
	}
	mc, err := s.Connect()
	if err != nil {
		c.R.Inconcl("connect: " + err.Error())
		return false
	}
	live := nFg + nBg
	want := int64(0)
	for round := 0; round < 4 && live >= 0; round++ {
		nEv := 1 + r.Intn(4)
		for e := 0; e < nEv; e++ {
			mc.SendLine(fmt.Sprintf(":srv DUP %d.%d", round, e))
		}
		want += int64(nEv * live)
		if !s.FgMarker(mc) || !waitUntil(func() bool { return atomic.LoadInt64(&o.n) >= want }) {
			if ds := rig.ProveDead(WaitShort); !ds.Dead {
				c.R.Inconcl(fmt.Sprintf("%s: marker / background invocations not reached (%s)", Case("samevalue", idx), ds.Reason))
				return false
			}
		}
		time.Sleep(200 * time.Microsecond) // (an invocation too many would still be on its way)
		if got := atomic.LoadInt64(&o.n); got != want {
			c.R.Violate(rig.Violation{Sig: "c04|same-value-registrations", Detail: fmt.Sprintf("one handler value registered %d times in the foreground and %d times in the background set (%d registrations still live): after the events of round %d it has run %d times, want %d", nFg, nBg, live, round, got, want), Case: Case("samevalue", idx)})
			go s.Conn.Close()
			return true
		}
		if len(rems) == 0 {
			break
		}
		// remove one registration: the others stay
		k := r.Intn(len(rems))
		if !watched(func() { rems[k].Remove() }) {
			c.R.Inconcl(fmt.Sprintf("%s: Remove did not return", Case("samevalue", idx)))
			return false
		}
		rems = append(rems[:k], rems[k+1:]...)
		live--
	}
	c.R.Eval(1)
	c.R.Count("same_value_rounds", 1)
	go s.Conn.Close()
	return true
}

func runC04Seq(c *Ctx) {
	for idx := 0; idx < c.Pick(30, 400); idx++ {
		if c.Want("samevalue", idx) {
			if !c04SameValue(c, idx) {
				return
			}
		}
	}
	for idx := 0; idx < c.Pick(40, 600); idx++ {
		if c.Want("teardown", idx) {
			if !c04Teardown(c, idx, c.Arg("procs", "?")) {
				return
			}
			if c.R.NumViolations() > 10 {
				return
			}
		}
	}
	histories := c.Pick(100, 1500)
	if c.Arg("heavy", "") == "1" {
		histories = 3000
	}
	procs, salt := c.Arg("procs", "?"), c.Arg("salt", "")
	for idx := 0; idx < histories; idx++ {
		if !c.Want("seq", idx) {
			continue
		}
		r := rig.Rand(c.Seed, "C04", "seq", procs, salt, idx)
		c04Names = c04PickNames(rig.Rand(c.Seed, "C04names", idx), idx)
		nOps := c.Pick(60, 120)
		c.J.Log("CASE %s ops=%d", Case("seq", idx), nOps)
		s := NewSession(SessionOpts{Flood: true})
		rg := &c04Rig{conn: s.Conn, inv: map[[2]int]int{}, sent: map[int]int{}}
		// permanent background sentinels (one per name)
		for ni := range c04Names {
			s.Conn.HandleBG(c04Names[ni][0], client.HandlerFunc(func(_ *client.Conn, l *client.Line) {
				ev := 0
				fmt.Sscanf(l.Args[0], "%d", &ev)
				rg.mu.Lock()
				rg.sent[ev]++
				rg.mu.Unlock()
			}))
		}
		mc, err := s.Connect()
		if err != nil {
			c.R.Inconcl("connect: " + err.Error())
			return
		}
		// model: per set, per name index: registered handlers
		model := [2][4][]*c04H{}
		nextID := 1
		evNo := 0
		var trace []string
		viol := func(kind, detail string) {
			from := 0
			if len(trace) > 30 {
				from = len(trace) - 30
			}
			c.R.Violate(rig.Violation{Sig: "c04|" + kind, Detail: detail + " — history tail: " + strings.Join(trace[from:], "; "), Case: Case("seq", idx)})
		}
		setIdx := func(bg bool) int {
			if bg {
				return 1
			}
			return 0
		}
		removeFromModel := func(h *c04H) {
			l := model[setIdx(h.bg)][h.name]
			for i, x := range l {
				if x == h {
					model[setIdx(h.bg)][h.name] = append(append([]*c04H{}, l[:i]...), l[i+1:]...)
					return
				}
			}
		}
		posClass := func(l []*c04H, h *c04H) string {
			for i, x := range l {
				if x == h {
					switch {
					case len(l) == 1:
						return "only"
					case i == 0:
						return "first"
					case i == len(l)-1:
						return "last"
					default:
						return "middle"
					}
				}
			}
			return "?"
		}
		failed := false
		for op := 0; op < nOps && !failed; op++ {
			switch k := r.Intn(10); {
			case k < 4: // register outside handlers
				bg := r.Intn(3) == 0
				ni, vi := r.Intn(4), r.Intn(3)
				h := &c04H{id: nextID, bg: bg, name: ni}
				nextID++
				if !watched(func() { rg.register(h, c04Names[ni][vi]) }) {
					ds := rig.ProveDead(WaitShort)
					if ds.Dead {
						viol("deadlock|"+ds.Signature, "registering a handler from outside never returned: dead state "+ds.Signature)
					} else {
						c.R.Inconcl(fmt.Sprintf("%s: Handle did not return (%s)", Case("seq", idx), ds.Reason))
					}
					failed = true
					break
				}
				model[setIdx(bg)][ni] = append(model[setIdx(bg)][ni], h)
				trace = append(trace, fmt.Sprintf("add h%d %s %q", h.id, map[bool]string{false: "fg", true: "bg"}[bg], c04Names[ni][vi]))
				c.R.Class(fmt.Sprintf("add|outside|bg=%v|variant=%d", bg, vi))
			case k < 6: // remove outside handlers
				si, ni := r.Intn(2), r.Intn(4)
				l := model[si][ni]
				if len(l) == 0 {
					continue
				}
				h := l[r.Intn(len(l))]
				c.R.Class(fmt.Sprintf("remove|outside|bg=%v|%s", h.bg, posClass(l, h)))
				if !watched(func() { h.rem.Remove() }) {
					ds := rig.ProveDead(WaitShort)
					if ds.Dead {
						viol("deadlock|"+ds.Signature, "removing a handler from outside never returned: dead state "+ds.Signature)
					} else {
						c.R.Inconcl(fmt.Sprintf("%s: Remove did not return (%s)", Case("seq", idx), ds.Reason))
					}
					failed = true
					break
				}
				removeFromModel(h)
				trace = append(trace, fmt.Sprintf("remove h%d", h.id))
			default: // an event, possibly with in-handler mutations
				ni, vi := r.Intn(4), r.Intn(3)
				evNo++
				snap := [2][]*c04H{append([]*c04H{}, model[0][ni]...), append([]*c04H{}, model[1][ni]...)}
				type planned struct {
					actor *c04H
					a     *c04Action
				}
				var plans []planned
				reserved := map[*c04H]bool{}
				for si := 0; si < 2; si++ {
					l := snap[si]
					for _, actor := range l {
						if r.Intn(4) != 0 || reserved[actor] {
							continue
						}
						switch r.Intn(3) {
						case 0:
							reserved[actor] = true
							plans = append(plans, planned{actor, &c04Action{kind: "self"}})
							c.R.Class(fmt.Sprintf("remove-self|inside|bg=%v|%s", actor.bg, posClass(l, actor)))
						case 1:
							var cand []*c04H
							for _, x := range l {
								if x != actor && !reserved[x] {
									cand = append(cand, x)
								}
							}
							if len(cand) == 0 {
								continue
							}
							t := cand[r.Intn(len(cand))]
							reserved[t] = true
							plans = append(plans, planned{actor, &c04Action{kind: "sibling", target: t}})
							c.R.Class(fmt.Sprintf("remove-sibling|inside|bg=%v|%s", actor.bg, posClass(l, t)))
						default:
							an, av := ni, r.Intn(3)
							if r.Intn(2) == 0 {
								an = r.Intn(4)
							}
							nh := &c04H{id: nextID, bg: actor.bg, name: an}
							nextID++
							plans = append(plans, planned{actor, &c04Action{kind: "add", addName: c04Names[an][av], addH: nh}})
							c.R.Class(fmt.Sprintf("add|inside|bg=%v|same-name=%v|variant=%d", actor.bg, an == ni, av))
						}
					}
				}
				for _, p := range plans {
					p.actor.action.Store(p.a)
				}
				doneBefore := atomic.LoadInt64(&rg.done)
				trace = append(trace, fmt.Sprintf("event %d %q (fg=%d bg=%d, %d in-handler mutations)", evNo, c04Names[ni][vi], len(snap[0]), len(snap[1]), len(plans)))
				mc.SendLine(fmt.Sprintf(":srv %s %d", c04Names[ni][vi], evNo))
				if !s.FgMarker(mc) {
					ds := rig.ProveDead(WaitShort)
					if ds.Dead {
						viol("deadlock|"+ds.Signature, fmt.Sprintf("event %d was never fully delivered: dead state %s", evNo, ds.Signature))
					} else {
						c.R.Inconcl(fmt.Sprintf("%s: marker not reached (%s)", Case("seq", idx), ds.Reason))
					}
					failed = true
					break
				}
				// background: sentinel has run and every expected background invocation has finished
				e := evNo
				okBg := waitUntil(func() bool {
					rg.mu.Lock()
					sn := rg.sent[e]
					rg.mu.Unlock()
					return sn >= 1 && atomic.LoadInt64(&rg.done)-doneBefore >= int64(len(snap[1]))
				})
				c.R.Eval(1)
				rg.mu.Lock()
				for si := 0; si < 2 && !failed; si++ {
					for _, h := range snap[si] {
						if n := rg.inv[[2]int{h.id, e}]; n != 1 {
							if si == 1 && !okBg && n == 0 {
								viol("bg-missed", fmt.Sprintf("background handler h%d registered for %q was not invoked for event %d (sentinel ran: %v)", h.id, c04Names[ni][0], e, rg.sent[e] > 0))
							} else {
								viol(fmt.Sprintf("%s-count", []string{"fg", "bg"}[si]), fmt.Sprintf("handler h%d ran %d times for event %d", h.id, n, e))
							}
							failed = true
							break
						}
					}
				}
				if !failed {
					// nobody else ran for this event
					exp := map[int]bool{}
					for si := 0; si < 2; si++ {
						for _, h := range snap[si] {
							exp[h.id] = true
						}
					}
					for k2, n := range rg.inv {
						if k2[1] == e && !exp[k2[0]] && n > 0 {
							viol("unexpected-invocation", fmt.Sprintf("handler h%d ran for event %d (%q) although it was not registered under that name when the event was dispatched", k2[0], e, c04Names[ni][vi]))
							failed = true
							break
						}
					}
					if rg.sent[e] != 1 {
						viol("sentinel-count", fmt.Sprintf("sentinel ran %d times for event %d", rg.sent[e], e))
						failed = true
					}
				}
				rg.mu.Unlock()
				// the planned in-handler mutations have happened: apply them to the model
				for _, p := range plans {
					switch p.a.kind {
					case "self":
						removeFromModel(p.actor)
					case "sibling":
						removeFromModel(p.a.target)
					case "add":
						model[setIdx(p.a.addH.bg)][p.a.addH.name] = append(model[setIdx(p.a.addH.bg)][p.a.addH.name], p.a.addH)
					}
					if p.actor.action.Load() != nil {
						viol("action-not-run", fmt.Sprintf("handler h%d did not run its planned action during event %d", p.actor.id, e))
						failed = true
					}
				}
			}
		}
		if !failed && idx%9 == 0 {
			from := 0
			if len(trace) > 8 {
				from = len(trace) - 8
			}
			c.R.Sample(map[string]interface{}{"history_tail": trace[from:], "events": evNo, "handlers_created": nextID - 1})
		}
		go s.Conn.Close()
		s.Release()
		if failed && c.R.NumViolations() > 10 {
			return
		}
	}
}

// ---- concurrent phase ----

type c04CH struct {
	id      int
	bg      bool
	name    int
	rem     client.Remover
	addRet  int64 // tick after Handle returned
	remCall int64 // tick before Remove was called (0 = never)
	remRet  int64 // tick after Remove returned
}

func runC04Conc(c *Ctx) {
	rounds := c.Pick(25, 400)
	if c.Arg("heavy", "") == "1" {
		rounds = 1500
	}
	procs, salt := c.Arg("procs", "?"), c.Arg("salt", "")
	for idx := 0; idx < rounds; idx++ {
		if !c.Want("conc", idx) {
			continue
		}
		c.J.Log("CASE %s", Case("conc", idx))
		c04Names = c04PickNames(rig.Rand(c.Seed, "C04names", "conc", idx), idx+1)
		clock := rig.NewLog()
		s := NewSession(SessionOpts{Flood: true, Log: clock})
		var mu sync.Mutex
		inv := map[[2]int]int{}
		var all []*c04CH
		mc, err := s.Connect()
		if err != nil {
			c.R.Inconcl("connect: " + err.Error())
			return
		}
		nEvents := 60
		sendTick := make([]int64, nEvents+1)
		evName := make([]int, nEvents+1)
		stop := make(chan struct{})
		var wg sync.WaitGroup
		var idSeq int64
		for g := 0; g < 8; g++ {
			wg.Add(1)
			go func(g int) {
				defer wg.Done()
				r := rig.Rand(c.Seed, "C04", "conc", procs, salt, idx, g)
				var mine []*c04CH
				for {
					select {
					case <-stop:
						return
					default:
					}
					if len(mine) > 0 && (r.Intn(3) == 0 || len(mine) >= 6) {
						k := r.Intn(len(mine))
						h := mine[k]
						mine = append(mine[:k], mine[k+1:]...)
						h.remCall = clock.Tick()
						h.rem.Remove()
						h.remRet = clock.Tick()
					} else {
						h := &c04CH{id: int(atomic.AddInt64(&idSeq, 1)), bg: r.Intn(3) == 0, name: r.Intn(4)}
						f := client.HandlerFunc(func(_ *client.Conn, l *client.Line) {
							ev := 0
							fmt.Sscanf(l.Args[0], "%d", &ev)
							mu.Lock()
							inv[[2]int{h.id, ev}]++
							mu.Unlock()
						})
						v := c04Names[h.name][r.Intn(3)]
						if h.bg {
							h.rem = s.Conn.HandleBG(v, f)
						} else {
							h.rem = s.Conn.Handle(v, f)
						}
						h.addRet = clock.Tick()
						mu.Lock()
						all = append(all, h)
						mu.Unlock()
						mine = append(mine, h)
					}
					for k := r.Intn(30); k > 0; k-- {
						runtimeGosched()
					}
				}
			}(g)
		}
		r := rig.Rand(c.Seed, "C04", "conc-ev", procs, salt, idx)
		stuck := false
		for e := 1; e <= nEvents; e++ {
			ni := r.Intn(4)
			evName[e] = ni
			sendTick[e] = clock.Tick()
			mc.SendLine(fmt.Sprintf(":srv %s %d", c04Names[ni][r.Intn(3)], e))
			if e%10 == 0 {
				if !s.FgMarker(mc) {
					stuck = true
					break
				}
			}
		}
		if !stuck && !s.FgMarker(mc) {
			stuck = true
		}
		endTick := clock.Tick()
		close(stop)
		mutDone := make(chan struct{})
		go func() { wg.Wait(); close(mutDone) }()
		if !waitCh(mutDone) {
			stuck = true
		}
		if stuck {
			ds := rig.ProveDead(WaitShort)
			if ds.Dead {
				c.R.Violate(rig.Violation{Sig: "c04|deadlock|" + ds.Signature, Detail: "event delivery stopped while handlers were being registered and removed concurrently: dead state " + ds.Signature, Case: Case("conc", idx), Witness: ds.Dump})
			} else {
				c.R.Inconcl(fmt.Sprintf("%s: marker not reached (%s)", Case("conc", idx), ds.Reason))
			}
			return
		}
		// let background invocations finish
		rig.WaitNoLib(WaitShort, 400)
		_ = endTick
		mu.Lock()
		must, mustNot, may := 0, 0, 0
		for _, h := range all {
			for e := 1; e <= nEvents; e++ {
				if evName[e] != h.name {
					if inv[[2]int{h.id, e}] != 0 {
						c.R.Violate(rig.Violation{Sig: "c04|wrong-name", Detail: fmt.Sprintf("handler h%d registered under %q ran for event %d of name %q", h.id, c04Names[h.name][0], e, c04Names[evName[e]][0]), Case: Case("conc", idx)})
					}
					continue
				}
				n := inv[[2]int{h.id, e}]
				switch {
				case n > 1:
					c.R.Violate(rig.Violation{Sig: "c04|conc-twice", Detail: fmt.Sprintf("handler h%d ran %d times for event %d", h.id, n, e), Case: Case("conc", idx)})
				case h.addRet < sendTick[e] && (h.remCall == 0 || h.remCall > endTick):
					// registered before the bytes were handed over, never removed while events flowed
					must++
					if n != 1 {
						c.R.Violate(rig.Violation{Sig: "c04|conc-missed", Detail: fmt.Sprintf("handler h%d (bg=%v) was registered (tick %d) before event %d was sent (tick %d) and never removed, but did not run for it", h.id, h.bg, h.addRet, e, sendTick[e]), Case: Case("conc", idx)})
					}
				case h.remRet != 0 && h.remRet < sendTick[e]:
					mustNot++
					if n != 0 {
						c.R.Violate(rig.Violation{Sig: "c04|conc-after-remove", Detail: fmt.Sprintf("handler h%d was removed (tick %d) before event %d was sent (tick %d) but still ran for it", h.id, h.remRet, e, sendTick[e]), Case: Case("conc", idx)})
					}
				case h.addRet > endTick:
				default:
					may++
				}
			}
		}
		mu.Unlock()
		c.R.Eval(1)
		c.R.Count("judgements_must", int64(must))
		c.R.Count("judgements_must_not", int64(mustNot))
		c.R.Count("judgements_may", int64(may))
		if must > 0 {
			c.R.Class("conc|must-see|procs=" + procs)
		}
		if mustNot > 0 {
			c.R.Class("conc|must-not-see|procs=" + procs)
		}
		if idx%7 == 0 {
			c.R.Sample(map[string]interface{}{"concurrent_round": idx, "handlers": len(all), "events": nEvents, "must": must, "must_not": mustNot, "may": may, "procs": procs})
		}
		go s.Conn.Close()
		s.Release()
	}
}
