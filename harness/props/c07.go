package props

import (
	"fmt"

	"verif/harness/rig"
)

func init() {
	register(&Property{
		ID:    "C07",
		Yield: true,
		Level: "fault_enumeration",
		Rule: "fault enumeration over teardown scenarios on an in-memory transport: pending inbound backlog {0,1,31,32,33,64,65,66,100,300} lines in one or many segments x outbound backlog {0,1,32,33,64,65,200} produced by a handler " +
			"or 1..4 user goroutines with the server {reading, not reading, reading in bursts} x handler state {idle, running on a harness gate released before/after the cause, blocked in a send} x cause {Close, EOF, read error, write error, " +
			"context cancellation and coincident pairs} x reconnect issued from {the DISCONNECTED handler, another goroutine} x 1..5 connect/disconnect cycles x tracking on/off (welcome confirming or changing the nick) x client pings x GOMAXPROCS; " +
			"curated witnesses of the known failure shapes first, then PRNG draws from the grid. Oracles: goroutine-census wait-for proof when Close/DISCONNECTED does not complete, leak census after the last DISCONNECTED, " +
			"and for every reconnect: Connect's error, registration lines on the new transport, two marker round trips, Connected()/socket still up, tracker reset. A scenario is non-trivial when >= 1 library goroutine was blocked on a full queue, " +
			"Loopback causes also: a context deadline (the next connect has none) and Close called from a background handler. Servers of the PRNG scenarios may say 'ERROR :Closing Link' before they hang up; the next connection is then watched past a short Config.Timeout. a gate or the socket at teardown; distinct_nontrivial = distinct (cause set, blocked set) fingerprints among those. Loopback mode: 1..3 connect/disconnect cycles per client over real TCP sockets dialled directly (no proxy) against an in-process server that either closes its side at the client's end of stream or keeps the socket open for ever; causes {Close, cancellation, server close, server reset}; the same completion proof (goroutines parked in the network poller count as blocked: every socket's other end is in this process), leak census and reconnect checks.",
		Assumptions: []string{
			"'bounded time' is restated as: after the last harness action the teardown reaches completion without further input; a dead state is proven from two identical all-blocked goroutine censuses, never inferred from a timeout",
			"flood control is off except in the dedicated flood batches, where the sender sleeps inside write at teardown (timer sites are recognised by the oracle: never a dead state)",
			"delay injection: in half of the scenarios the capturing logger yields or sleeps 20..200 us at PRNG-chosen library log sites (recv/send loops, before error-triggered closes, inside Close)",
			"outside the claim and not generated: Close from a foreground/internal handler; a coincident public Close when the reconnect is issued inside the DISCONNECTED handler",
		},
		Plan: func(tier string, seed int64) []Batch {
			var bs []Batch
			for _, p := range []int{1, 2, 4, 16} {
				bs = append(bs, Batch{Name: fmt.Sprintf("p%d", p), Args: map[string]string{"procs": fmt.Sprint(p)}, Race: true, Procs: p, Weight: min(p, 4)})
			}
			// real flood-control sleeps (up to 6.25 s each): few scenarios, one batch each so that they run side by side
			nf := 4
			if tier == "thorough" {
				nf = 16
			}
			for i := 0; i < nf; i++ {
				bs = append(bs, Batch{Name: fmt.Sprintf("flood-%d", i), Args: map[string]string{"procs": "4", "mode": "flood", "k": fmt.Sprint(i)}, Race: true, Procs: 4, Weight: 1})
			}
			bs = append(bs, Batch{Name: "tcp-p4", Args: map[string]string{"procs": "4", "mode": "tcp"}, Race: true, Procs: 4, Weight: 2})
			if tier == "thorough" {
				for i := 0; i < 12; i++ {
					p := []int{1, 2, 4, 16}[i%4]
					bs = append(bs, Batch{Name: fmt.Sprintf("x%d-p%d", i, p), Args: map[string]string{"procs": fmt.Sprint(p), "salt": fmt.Sprint(i)}, Race: i < 4, Procs: p, Weight: min(p, 4)})
				}
			}
			return bs
		},
		Run: runC07,
	})
}

func c07Curated() []lifeSc {
	base := lifeSc{Cycles: 1, InSegs: "one", OutBy: "none", Server: "reading", Handler: "idle", Reconnect: "none", Causes: []string{"close"}}
	var out []lifeSc
	add := func(f func(sc *lifeSc)) {
		sc := base
		sc.Causes = append([]string(nil), base.Causes...)
		f(&sc)
		out = append(out, sc)
	}
	// inbound backlog behind a gated handler (recv refills the input queue after the single drain)
	for _, n := range []int{66, 100, 300} {
		for _, late := range []bool{true, false} {
			add(func(sc *lifeSc) { sc.Inbound, sc.Handler, sc.GateLate = n, "gate", late })
			add(func(sc *lifeSc) { sc.Inbound, sc.Handler, sc.GateLate, sc.InSegs = n, "gate", late, "many" })
		}
	}
	// handler emitting more than two buffers' worth while the server is not reading
	for _, cause := range []string{"close", "cancel", "eof", "readerr"} {
		add(func(sc *lifeSc) {
			sc.Outbound, sc.OutBy, sc.Handler, sc.Server, sc.Causes = 200, "handler", "raw", "stalled", []string{cause}
			sc.UseCtx = cause == "cancel"
		})
	}
	add(func(sc *lifeSc) {
		sc.Outbound, sc.OutBy, sc.Users, sc.Server = 200, "users", 4, "stalled"
	})
	// reconnects from inside the DISCONNECTED handler / from another goroutine
	for _, cause := range []string{"close", "eof", "readerr", "writeerr", "cancel"} {
		for _, rc := range []string{"handler", "other"} {
			add(func(sc *lifeSc) {
				sc.Cycles, sc.Reconnect, sc.Causes, sc.UseCtx = 4, rc, []string{cause}, cause == "cancel"
			})
			add(func(sc *lifeSc) {
				sc.Cycles, sc.Reconnect, sc.Causes, sc.UseCtx = 3, rc, []string{cause}, cause == "cancel"
				sc.Tracking, sc.Welcome = true, "same"
				sc.NoJoin = rc == "handler"
			})
		}
	}
	add(func(sc *lifeSc) { sc.Cycles, sc.Reconnect, sc.Tracking, sc.Welcome = 3, "other", true, "diff" })
	add(func(sc *lifeSc) {
		sc.Cycles, sc.Reconnect, sc.Tracking, sc.Welcome, sc.PingMs = 5, "handler", true, "same", 20
	})
	return out
}

func c07Random(r interface{ Intn(int) int }) lifeSc {
	sc := lifeSc{}
	sc.Tracking = r.Intn(2) == 0
	if sc.Tracking {
		sc.Welcome = []string{"same", "diff", ""}[r.Intn(3)]
	} else if r.Intn(3) == 0 {
		sc.Welcome = "same"
	}
	sc.NoJoin = r.Intn(2) == 0
	sc.PingMs = []int{0, 0, 20}[r.Intn(3)]
	sc.CtxAware = r.Intn(2) == 0
	sc.Cycles = 1 + r.Intn(5)
	sc.Inbound = []int{0, 1, 31, 32, 33, 64, 65, 66, 100, 300}[r.Intn(10)]
	sc.InSegs = []string{"one", "many"}[r.Intn(2)]
	sc.Outbound = []int{0, 1, 32, 33, 64, 65, 200}[r.Intn(7)]
	sc.OutBy = "none"
	if sc.Outbound > 0 {
		sc.OutBy = []string{"handler", "users"}[r.Intn(2)]
		sc.Users = 1 + r.Intn(4)
	}
	sc.Server = []string{"reading", "stalled", "burst"}[r.Intn(3)]
	sc.Handler = []string{"idle", "gate", "raw"}[r.Intn(3)]
	if sc.Handler == "raw" {
		if sc.Outbound == 0 {
			sc.Outbound = []int{33, 65, 200}[r.Intn(3)]
		}
		sc.OutBy = "handler"
	}
	sc.GateLate = r.Intn(2) == 0
	single := []string{"close", "eof", "readerr", "writeerr", "cancel"}
	sc.Causes = []string{single[r.Intn(len(single))]}
	if r.Intn(3) == 0 {
		b := single[r.Intn(len(single))]
		if b != sc.Causes[0] {
			sc.Causes = append(sc.Causes, b)
		}
	}
	sc.Reconnect = "none"
	if sc.Cycles > 1 {
		sc.Reconnect = []string{"handler", "other"}[r.Intn(2)]
	}
	hasClose := false
	for _, c := range sc.Causes {
		if c == "cancel" {
			sc.UseCtx = true
		}
		if c == "close" {
			hasClose = true
		}
	}
	if sc.Reconnect == "handler" && hasClose && len(sc.Causes) > 1 {
		sc.Reconnect = "other"
	}
	if r.Intn(4) == 0 {
		sc.UseCtx = true
	}
	if r.Intn(6) == 0 {
		sc.Pass = "sekrit"
	}
	if r.Intn(8) == 0 {
		sc.Second = []string{"idle", "busy"}[r.Intn(2)]
	}
	sc.ConnectTo = r.Intn(4) == 0
	return sc
}

func runC07(c *Ctx) {
	procs, salt := c.Arg("procs", "?"), c.Arg("salt", "")
	logger := rig.NewCapLogger(nil)
	logger.Discard = func(r *rig.LogRecord) bool { return true }
	lifeLogger = logger
	if c.Arg("mode", "") == "tcp" {
		runC07TCP(c, "C07")
		return
	}
	if c.Arg("mode", "") == "flood" {
		k := c.ArgInt("k", 0)
		causes := []string{"close", "eof", "cancel", "readerr", "writeerr", "close"}
		sc := lifeSc{Cycles: 1 + k%2, InSegs: "one", Inbound: []int{0, 40, 100}[k%3], Outbound: []int{12, 40, 80}[k%3], OutBy: []string{"handler", "users"}[k%2], Users: 2,
			Server: "reading", Handler: []string{"raw", "idle"}[k%2], Causes: []string{causes[k%len(causes)]}, Reconnect: "none", FloodOn: true, Procs: procs}
		if sc.Handler == "raw" {
			sc.OutBy = "handler"
		}
		if sc.Cycles > 1 {
			sc.Reconnect = []string{"other", "handler"}[(k/2)%2]
		}
		sc.UseCtx = sc.Causes[0] == "cancel"
		if !c.Want("flood", k) {
			return
		}
		c.J.Log("CASE %s %s", Case("flood", k), sc.String())
		o := runLife(c, sc, "C07", "flood", k)
		reportLife(c, "C07", "flood", k, sc, o)
		if o.Fingerprint != "" {
			c.R.Class("flood|" + o.Fingerprint)
		}
		c.R.Sample(map[string]interface{}{"scenario": sc.String(), "fingerprint": o.Fingerprint})
		return
	}
	cur := c07Curated()
	nRandom := c.Pick(400, 4000)
	total := len(cur) + nRandom
	for idx := 0; idx < total; idx++ {
		if !c.Want("sc", idx) {
			continue
		}
		var sc lifeSc
		if idx < len(cur) {
			sc = cur[idx]
		} else {
			sc = c07Random(rig.Rand(c.Seed, "C07", procs, salt, idx))
		}
		sc.Procs = procs
		c.J.Log("CASE %s %s", Case("sc", idx), sc.String())
		o := runLife(c, sc, "C07", procs, salt, idx)
		reportLife(c, "C07", "sc", idx, sc, o)
		if o.Inconclusive != "" || c.R.NumViolations() > 6 {
			return
		}
		if o.Nontrivial && o.Fingerprint != "" {
			c.R.Class(o.Fingerprint)
			c.R.Count("scenarios_with_blocked_goroutines_at_teardown", 1)
		}
		if idx%23 == 0 {
			c.R.Sample(map[string]interface{}{"scenario": sc.String(), "fingerprint": o.Fingerprint, "events": o.Events, "connections": o.Connections})
		}
	}
}
