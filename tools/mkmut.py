#!/usr/bin/env python3
"""mkmut.py <name> <file-relative-to-repo> <old> <new> : writes /verif/mutants/<name>.patch replacing the first occurrence of old by new."""
import sys, subprocess, os, tempfile, shutil
name, rel, old, new = sys.argv[1:5]
src = open('/repo/'+rel).read()
if old not in src:
    print("OLD TEXT NOT FOUND for", name); sys.exit(1)
d = tempfile.mkdtemp()
os.makedirs(os.path.join(d,'a',os.path.dirname(rel))); os.makedirs(os.path.join(d,'b',os.path.dirname(rel)))
open(os.path.join(d,'a',rel),'w').write(src)
open(os.path.join(d,'b',rel),'w').write(src.replace(old,new,1))
p = subprocess.run(['diff','-u','a/'+rel,'b/'+rel],cwd=d,capture_output=True,text=True).stdout
out='/verif/mutants/'+name+'.patch'
mode='a' if (len(sys.argv)>5 and sys.argv[5]=='append') else 'w'
open(out,mode).write(p)
shutil.rmtree(d)
print("wrote",out)
