#!/usr/bin/env python3
"""Regenerates /verif/MANIFEST.json from the table below (single source of truth)."""
import json, os, sys
V = os.path.dirname(os.path.dirname(os.path.abspath(__file__)))

CHECKS = {
 "C01": dict(cat="exploration", tech="runtime differential monitor: generator-owned expectation vs ParseLine and vs the line a handler receives over an in-memory connection",
   text="Every generated well-formed message (exhaustive product over small component pools + PRNG grammar) is parsed by the real ParseLine and, for a sample, pushed through a live in-memory connection; the result is compared field by field with an expectation derived from the components alone. Held on the messages explored; the grammar is infinite so this is sampling beyond the exhaustive product. Sessions with 20 ms client pings deliver each message in two segments separated by a longer silence (the transport honours read deadlines), and some messages exceed the 4096-byte read buffer.",
   note="Trusted: the generator's reading of 'well-formed' (RFC 2812 2.3.1 + IRCv3 tags as delimited by the property's quantifier); the in-memory net.Conn handed over through cfg.Proxy.", ref="§4 C01"),
 "C02": dict(cat="exploration", tech="crash journal over child processes + marker round trip + rejected-xor-dispatched log oracle; exhaustive short strings, PRNG mutation; go test -fuzz with a fixed execution count",
   text="Stage A runs ParseLine and Text/Target/Public under recover on every string up to a length bound over the special-byte/verb-token alphabet and on PRNG mutations of well-formed lines; stage B feeds hostile probes (every built-in handler verb with odd parameters, raw bytes) through live connections in child processes, tracking on and off, and checks process survival, that a marker sent afterwards is answered, that following numbered lines arrive in order, and that each probe was either logged as rejected or dispatched exactly once. Held on the inputs explored; exhaustive only up to the stated length. Go's native coverage-guided fuzzer runs the same target for a fixed execution count and records every panic site.",
   note="Trusted: the crash journal's attribution of a dead worker to the case in flight; a handler panic swallowed by cfg.Recover is by the statement not a violation.", ref="§4 C02"),
 "C08": dict(cat="exploration", tech="per-call wire attribution by FIFO separators over an in-memory connection; CRLF/verb predicates on the raw bytes",
   text="All 28 exported command methods are called with every argument position set to each of 22 hostile strings (CR, LF, CRLF + second command, NUL, 5000 bytes, ...) for 5 SplitLen values (enumerated completely), plus PRNG multi-hostile combinations; the bytes between separators must be CR/LF-free CRLF-terminated lines beginning with the method's verb. Exhaustive for the stated finite grid, sampling beyond it. A concurrent mode (2..8 goroutines, 6000-byte arguments, server PINGs, bursty server) requires the wire to hold exactly the expected whole lines.",
   note="Trusted: the in-memory net.Conn records exactly the bytes passed to Write; single issuing goroutine so separators attribute bytes to calls.", ref="§4 C08"),
 "C09": dict(cat="exploration", tech="conservation + per-sender order oracle over the wire transcript under concurrent senders, scripted slow/bursty server, race detector, GOMAXPROCS sweep",
   text="1..32 concurrent senders (user goroutines, parallel foreground and background handler invocations) issue uniquely numbered lines while the server end reads fast, per token or in bursts; the transcript must equal the issued multiset byte for byte with every sender's counters increasing. Held on the interleavings produced (evidence counts runs with interleaving and a full queue); schedules are sampled, not enumerated. Server PINGs are answered concurrently by the built-in handler (one more sender) and some lines exceed the 4096-byte write buffer.",
   note="Trusted: unique (sender,counter) ids make the history unambiguous; the harness keeps the connection up.", ref="§4 C09"),
 "C11": dict(cat="exploration", tech="losslessness/bound predicates over the wire transcript; exhaustive small-alphabet texts + PRNG text classes",
   text="Privmsg/Privmsgln/Privmsgf/Notice/Ctcp/CtcpReply/Action over 10 SplitLen values; every text over {a,space,.} of the stated lengths at SplitLen 13 exhaustively and PRNG texts up to 6000 bytes with separators placed around the cut point; each piece <= SplitLen, '...' on all but the last, no empty piece, exact reassembly, same target, one piece when it fits. Exhaustive for the small alphabet and lengths, sampling beyond. A concurrent mode sends split-worthy texts from 2..8 goroutines to targets of their own under back-pressure.",
   note="Trusted: consecutive calls use different targets so wire lines are attributed to calls by prefix.", ref="§4 C11"),
 "C12": dict(cat="exploration", tech="reference-model differential monitor on the real tracker: BFS to closure over a small name universe + long PRNG operation sequences, full query sweep after every step",
   text="The real tracker is driven to every one of the reachable model states of the relational-skeleton universe (closure completed: exhaustive there), every interface call with every argument combination is applied from each, and return values plus a full query sweep are compared with an executable relational model; long PRNG sequences over a larger universe with all attributes add the mode/attribute behaviour. Exhaustive for the small universe, sampling beyond.",
   note="Trusted: the model's reading of the statement (noted in evidence assumptions: unspecified outcomes are skipped or follow the implementation); states are reached by replaying the BFS path on a fresh tracker.", ref="§4 C12"),
 "C14": dict(cat="exploration", tech="mutate-and-resweep aliasing monitor; Go race detector attributed to goirc/state; porcupine linearizability check of timed concurrent histories against the C12 model, with a neighbouring tracker of the same process busy at the same time",
   text="Every returned value is scribbled over and the tracker re-swept against the model; earlier values are compared with their deep copies after later operations; 3..8 goroutines hammer one tracker under -race; many short timed histories are checked for linearizability with porcupine. Held on the histories and interleavings observed (evidence reports overlapping operation pairs).",
   note="Trusted: porcupine v1.3.0; the C12 model as sequential specification; ticks from one atomic counter taken before the call and after the return.", ref="§4 C14"),
 "C03": dict(cat="exploration", tech="offline trace checker over an ENTER/EXIT event log (ordering, non-overlap, CONNECTED/DISCONNECTED placement) under segmentation, handler-delay injection, GOMAXPROCS sweep and the race detector; virtual-time (synctest) slow-handler sessions; supervised-reconnect sessions (a supervisor connects while a handler of the old connection still runs)",
   text="Numbered lines are sent through live in-memory connections cut into hostile segmentations (per byte, inside CRLF, lines longer than the read buffer) to verbs with several foreground and background handlers whose durations are drawn to provoke overlap; the event log must show one line's foreground handlers open at a time, strictly increasing dispatch, every handler once, CONNECTED after the welcome is applied and before later lines, DISCONNECTED after every foreground exit. Held on the schedules observed; evidence counts sessions where same-line overlap was seen (log can see overlap) and lines crossed segments. Sessions mix in PING/PRIVMSG/NOTICE/PONG/MODE lines, handlers check that lines arrive whole, the library's own 'nick changed' warning is used as a delay-injection point, and a virtual-time batch runs handlers that take up to an hour.",
   note="Trusted: the event log's tick is taken inside the append critical section, so log order is consistent with real time; schedules are sampled.", ref="§4 C03"),
 "C15": dict(cat="exploration", tech="scribble-and-barrier monitor inside handlers + storage-identity check + race detector attributed to the handlers' writes and to the dispatcher; built-in-event mode comparing every user handler's line with the parse of what was sent",
   text="Every handler invocation compares its line with the expected parse, scribbles over all of it, meets the other invocations of the event at a barrier and checks that only its own marks are present; backing arrays and tag maps must be pairwise distinct; the race detector watches the concurrent writes. Held on the events and interleavings produced.",
   note="Trusted: reflect pointers identify storage; the expected line is computed by a deep copy that does not use Line.Copy.", ref="§4 C15"),
 "C16": dict(cat="exploration", tech="invocation-counter and recovery-hook oracles at sync markers under injected panics and permanently parked background handlers; dead-state proof when a marker is not reached; hostile-input mode in which the recovery hook reports which built-in handlers panicked; panics during teardown; virtual-time (synctest) check that parked background handlers cost foreground delivery no time",
   text="User foreground/background and built-in handlers are made to panic with five value kinds at PRNG positions under the default and a custom recovery, next to 0..8 background handlers that never return; at markers every well-behaved handler's count must equal the number of events, the recovery function must have run once per panic with that value and line (default: an error record), and later markers must be reached. Held on the sessions explored.",
   note="Trusted: counters are atomic; a marker not reached is a violation only with a goroutine-census dead-state proof.", ref="§4 C16"),
 "C06": dict(cat="fault_enumeration", tech="fault enumeration on an in-memory transport (cause pairs fired from one barrier) with lifecycle counters, Connected() samples inside handlers and a goroutine-census quiescence oracle; continuous Connected() polling while second Connects are refused; simultaneous Connects; context ending during a TLS handshake; supervised reconnects; loopback TCP scenarios; crash journal; race detector",
   text="Every single end cause and every unordered pair of causes (Close from 1/3/8 goroutines, EOF, read error, write error, context cancel) is fired against connections in seven traffic states and five configurations, plus second-Connect-while-connected, failing connects and Close on an unconnected client; REGISTER/DISCONNECTED counts, Connected() samples taken inside the handlers and return values are judged once the goroutine census shows no library goroutine. The cause/traffic grid is enumerated completely; the schedules inside each scenario are sampled (GOMAXPROCS 1,2,4,16, repetitions). A teardown that is proven unable to ever deliver DISCONNECTED is reported here as zero-instead-of-one.",
   note="Trusted: the in-memory net.Conn's fault injection reflects what a socket does (a peer that is gone also fails writes); a teardown that never completes is reported by C07, here it is inconclusive.", ref="§4 C06"),
 "C07": dict(cat="fault_enumeration", tech="goroutine-census wait-for (dead-state) oracle for completion, leak census after DISCONNECTED, wire transcript and tracker/Config().Me checks of every next connection; curated + PRNG fault scenarios; the same over loopback TCP sockets against in-process servers that close back or keep the socket open; race detector",
   text="Teardown is driven with inbound backlogs up to 300 lines, outbound backlogs up to 200 lines from handlers or user goroutines against reading/non-reading/bursty servers, handlers idle, gated or blocked in a send, all causes and pairs, 1..5 reconnect cycles from inside the DISCONNECTED handler or another goroutine, tracking on/off. 'Bounded time' is restated as reaching completion without further input; a stuck teardown is a violation only with a proof (two identical all-blocked censuses, no library timer pending). Held on the scenarios and schedules explored. Scenarios with flood protection on tear down while the sender sleeps inside write; every next connection's transcript and handler counters are checked for lines carried over from the previous one.",
   note="Trusted: the dead-state argument (in-memory transport, no external input, harness goroutines never park on timers); flood control off in these scenarios.", ref="§3.5, §4 C07"),
 "C10": dict(cat="exploration", tech="online reference-model monitor (Hybrid penalty recurrence in interval arithmetic) over write timestamps in virtual time (testing/synctest bubble, go1.26.8, race detector); real-time rounds across a reconnect, also under GODEBUG=asynctimerchan=1",
   text="PRNG sequences of line lengths (boundary values favoured) and idle gaps (0 .. 10 min) from a fresh client, Flood toggled while the sender is idle; every write timestamp must fall where the recurrence allows (held for its own charge exactly when the penalty exceeds 10 s, never delayed with Flood set), and the stated window bound is re-checked on every run of consecutive lines. The virtual clock removes scheduling jitter, so the inequality becomes an equality against the model. Held on the sequences explored.",
   note="Trusted: testing/synctest's fake clock; go1.26.8 instead of the repository's toolchain; the transport's Write timestamp is taken on the client's own send goroutine.", ref="§3.6, §4 C10"),
 "C17": dict(cat="exploration", tech="reactive scripted server holding the ground-truth nick; Me()/Config().Me sampled at sync markers and inside handlers; wire oracle for collision answers; exhaustive short scripts + PRNG; exhaustive DefaultNewNick",
   text="All scripts over {collisions before the welcome, welcome same/different, client change confirmed / refused once / refused twice, forced change, other users' changes} up to the stated length are played for three tracking modes and four generators (incl. identity), longer ones by PRNG; Me().Nick must equal the server's nick at every marker (also while a refused change is pending), nothing may be nil, every 433 must be answered with generator(refused). Exhaustive for short scripts, sampling beyond.",
   note="Trusted: the reactive server answers every NICK the client really sends, so sessions are protocol-conformant by construction; Config().Me is read before anything calls Me().", ref="§4 C17"),
 "C18": dict(cat="exploration", tech="dial-address and wire-transcript oracles over the configuration product; PONG token oracle under segmentation; client-ping instants in virtual time (synctest)",
   text="The address handed to the registered proxy dialer is checked for 12 server spellings x SSL x dialer kinds; the first wire lines for the nick/ident/name/password/negotiation/tracking product over three successive connects of the same client; PONG tokens for a hostile token pool interleaved with other traffic; client PING instants for seven PingFreq values over virtual spans up to an hour. The configuration grids are enumerated completely; token streams are sampled. A separate batch completes real TLS handshakes against a server on the in-memory transport and registers through it; PING streams are also sent while the output queue is full.",
   note="Trusted: with SSL the dial is observed and refused (no TLS handshake); synctest clock for the ping half.", ref="§4 C18"),
 "C19": dict(cat="exploration", tech="trace automaton over the CAP/AUTHENTICATE wire transcript driven by a reactive server, plus SupportsCapability/HasCapability at sync markers; exhaustive small universe + PRNG large sets",
   text="One negotiation per fresh client for every combination of wanted list (incl. duplicates), SASL none/PLAIN/EXTERNAL, advertised subset, reply ACK/NAK/ACK-then-minus and SASL outcome over the small capability universe (enumerated completely), plus PRNG sets of 50..300 capabilities forcing split requests; checks requested = wanted-and-advertised, held = latest acknowledgement, CAP END at quiescence in every listed situation, SASL ordering and payloads.",
   note="Trusted: go-sasl's clients as the definition of 'what the mechanism prescribes'; quiescence via a PING/PONG round trip.", ref="§4 C19"),
 "C20": dict(cat="exploration", tech="capturing logging.Logger with a substring oracle over every record and argument, control run with an empty password, over successful and failing sessions",
   text="PRNG passwords from nine classes (spaces, format verbs, leading colon, 200 bytes, starting with PASS, containing the mask) on clients with/without negotiation, SASL, tracking, over successful, dial-refused, write-error, EOF-during-registration and reconnecting sessions; no record may contain the password and a masked PASS record must exist whenever PASS reached the wire. Held on the sessions explored. Flood-protected sessions reconnect right after a burst so that the PASS line itself is held back and whatever is logged about the hold is examined.",
   note="Trusted: the capturing logger sees every record because logging is package-global; passwords occurring in the control log are skipped as trivial.", ref="§4 C20"),
 "C04": dict(cat="exploration", tech="multiset reference model with snapshot-at-dispatch semantics compared with per-handler invocation counters at sync markers; must/may classification from call/return ticks under concurrent mutation; dead-state proof; race detector on hSet/hNode",
   text="PRNG histories of registrations, removals and events over 4 names x 3 letter-case variants x both sets, with mutations from inside running handlers (self, first/middle/last/only sibling, same/other name and case); every event's invocation multiset must equal the model's snapshot, in-handler changes must leave the current event's siblings alone and apply later; in a concurrent phase 8 goroutines mutate while events flow and only outcomes fixed by the statement (registered/removed before the event's bytes were handed over) are judged. Held on the histories and interleavings explored.",
   note="Trusted: the background sentinel pins the start of background dispatch; ticks from one atomic clock around every call.", ref="§4 C04"),
 "C05": dict(cat="exploration", tech="single-call tracker snapshots taken inside foreground and background handlers compared with the specification state sequence S_n..S_R (reference tracker model); receive-log-timed sampling; burst-reading server; GOMAXPROCS sweep; race detector; virtual-time (synctest) slow-handler sessions",
   text="Tracked sessions in which every line has a unique visible effect on the channel snapshot; foreground handlers sample after the next line has been received and must see exactly S_n, background handlers must see some S_k with n <= k <= R. Held on the sessions and schedules explored; evidence counts the foreground samples that could have refuted 'not ahead'. A virtual-time batch runs foreground handlers for up to an hour and samples the tracker at entry and exit.",
   note="Trusted: GetChannel is atomic under the tracker's lock; the '<- line' log record bounds what can have been applied.", ref="§4 C05"),
 "C13": dict(cat="exploration", tech="model IRC network simulator (ground truth + client-knowable view) with a reactive server answering the client's own MODE/WHO requests from the wire; tracker compared at sync markers over every name that ever appeared plus the tracker's own listing; invariant monitor under grammar-based arbitrary lines",
   text="Conformant sessions of hundreds of events (joins, parts, kicks, quits, renames, topics, multi-letter mode changes with arguments, NAMES with highest prefix only, WHO and MODE replies) are played against a tracked client and the tracker is compared with what the protocol has revealed; then arbitrary lines over the same small name universe are fed and the three invariants checked. Held on the sessions explored.",
   note="Trusted: the simulator's reading of what a server reveals (stated in evidence assumptions); replies reflect ground truth at emission time, views are updated in emission order.", ref="§4 C13"),
}

YIELD = ["C03","C04","C05","C06","C07","C09","C13","C14","C15","C16","C17","C19"]
for _p in YIELD:
    CHECKS[_p]["tech"] += "; schedule perturbation: part of the batches run against a scratch copy of the library rewritten to pass a seed-controlled yield point before every statement (harness/cmd/perturb)"
    CHECKS[_p]["text"] += " Some batches (y-*) run the same workload against a mechanically rewritten scratch copy of /repo's working tree in which a seed-chosen subset of the ~1000 statement boundaries of client/ and state/ yields the processor or sleeps some microseconds; evidence counts the points passed, fired and the distinct sites reached."

NOT_BUILT = "check not built yet in this round (planned, see DESIGN.md §4)"

def main():
    props = [json.loads(l)["id"] for l in open(os.path.join(V, "properties.jsonl"))]
    checks = []
    for pid in props:
        c = CHECKS.get(pid)
        if not c: continue
        checks.append({
            "property_id": pid,
            "quick_cmd": f"./check {pid} quick",
            "thorough_cmd": f"./check {pid} thorough",
            "evidence_file": f"/verif/evidence/{pid}.json",
            "replay_cmd_template": f"./check {pid} --replay {{path}}",
            "engine": "harness",
            "level_claimed": {"category": c["cat"], "text": c["text"], "design_ref": c["ref"]},
            "level_note": c["note"],
            "technique": c["tech"],
        })
    na = [{"property_id": p, "reason": NOT_BUILT} for p in props if p not in CHECKS]
    m = {
        "version": 1,
        "setup_cmd": "./setup.sh",
        "hooks": {
            "guard": "verif",
            "enable": "go build -tags verif (the tag selects nothing in /repo: no source hooks are needed, every observation point is at the public boundary)",
            "baseline_off_cmd": "cd /repo && GOFLAGS=-mod=mod GOPROXY=off GOSUMDB=off GOTOOLCHAIN=local go test -vet=off -count=1 ./...",
            "source_commits": [],
            "add_only": True,
        },
        "engines": [{
            "name": "harness", "path": "/verif/harness",
            "serves_properties": [c["property_id"] for c in checks],
            "kind_free_text": "Go module: in-memory transport + scripted server + event log + capturing logger + goroutine census; one worker per property run as child processes (race detector where goroutines share library state); reference-model and history oracles",
        }],
        "checks": checks,
        "not_applicable": na,
        "notes": "Runtime monitoring only. ./check <id> quick|thorough rebuilds the harness against /repo's working tree. KNOWN_FINDINGS.txt lists known:/fixed: entries.",
    }
    json.dump(m, open(os.path.join(V, "MANIFEST.json"), "w"), indent=1)
    print("wrote MANIFEST.json with", len(checks), "checks;", len(na), "not_applicable")

main()
