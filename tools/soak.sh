#!/bin/bash
# tools/soak.sh <tier> <seed-from> <seed-to> [ids...] : run checks repeatedly with different seeds; print one line per run,
# and keep the full output of every run that did not exit 0 under soak-out/.
cd "$(dirname "$0")/.."
TIER="${1:-quick}"; FROM="${2:-1}"; TO="${3:-5}"; shift 3 || true
IDS="$*"; [ -n "$IDS" ] || IDS="C01 C02 C03 C04 C05 C06 C07 C08 C09 C10 C11 C12 C13 C14 C15 C16 C17 C18 C19 C20"
mkdir -p soak-out
export VERIF_OUT="$(pwd)/soak-out"
bad=0
for seed in $(seq "$FROM" "$TO"); do
  for id in $IDS; do
    out="$(VERIF_SEED=$seed ./check "$id" "$TIER" 2>&1)"; rc=$?
    echo "seed=$seed $id rc=$rc $(echo "$out" | tail -1)"
    if [ $rc -ne 0 ]; then bad=$((bad+1)); echo "$out" > "soak-out/$id.seed$seed.$TIER.log"; fi
  done
done
echo "SOAK DONE tier=$TIER seeds=$FROM..$TO non-zero runs: $bad"
