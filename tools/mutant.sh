#!/bin/bash
# tools/mutant.sh <name> <patch-file|-e 'python-expr-file'> <check-id>...   (quick tier)
# Applies a patch to a scratch copy of /repo (outside /repo and /verif), makes sure it
# builds and passes the repository's own tests, runs the named checks against it
# (VERIF_REPO) and removes the copy. Prints one line per check: CAUGHT / MISSED / INCONCLUSIVE.
set -u
export GOFLAGS=-mod=mod GOPROXY=off GOSUMDB=off GOTOOLCHAIN=local
NAME="$1"; PATCH="$(readlink -f "$2")"; shift 2
D="$(mktemp -d /tmp/mut-XXXXXX)"
trap 'rm -rf "$D"' EXIT
rsync -a --exclude .git /repo/ "$D/repo/"
if ! ( cd "$D/repo" && patch -p1 -s < "$PATCH" ); then echo "$NAME: PATCH-FAILED"; exit 3; fi
if ! ( cd "$D/repo" && go build ./... ) >"$D/build.log" 2>&1; then echo "$NAME: DOES-NOT-BUILD"; cat "$D/build.log" | head; exit 3; fi
tests=ok
for i in 1 2; do
  if ( cd "$D/repo" && go test -vet=off -count=1 -timeout 90s ./... ) >"$D/test.log" 2>&1; then tests=ok; break; else tests=fail; fi
done
if [ $tests = fail ]; then echo "$NAME: FAILS-REPO-TESTS (not a valid mutant)$( [ -n "${FORCE:-}" ] && echo ' — FORCE: running the checks anyway')"; grep -E "^(--- FAIL|FAIL)" "$D/test.log" | head -3; [ -n "${FORCE:-}" ] || exit 4; fi
for id in "$@"; do
  out="$(cd /verif && VERIF_REPO="$D/repo" VERIF_OUT="$D/vd" ./check "$id" ${TIER:-quick} 2>&1)"; rc=$?
  case $rc in
    1) echo "$NAME: $id CAUGHT  $(echo "$out" | grep -m1 -A1 '^VIOLATION' | tail -1 | cut -c1-160)";;
    0) echo "$NAME: $id MISSED  $(echo "$out" | tail -1 | cut -c1-160)";;
    *) echo "$NAME: $id INCONCLUSIVE rc=$rc $(echo "$out" | grep -m1 INCONCLUSIVE | cut -c1-200)";;
  esac
done
