#!/bin/bash
# tools/seeded.sh <Cxx> <mN> [extra check ids...]
# Verifies a sub-agent's seeded change found in /tmp/seedout-<Cxx>/<mN>/ (patch.diff, demonstration, meta.json):
#  (a) the patch applies to a clean copy of /repo and the repository's tests pass with it,
#  (b) the demonstration fails with it and (c) passes without it,
#  then runs the quick check(s) against the patched copy and files everything under /verif/seeded/<Cxx>-<mN>/.
set -u
export GOFLAGS=-mod=mod GOPROXY=off GOSUMDB=off GOTOOLCHAIN=local
ID="$1"; M="$2"; shift 2; CHECKS="$ID $*"
R="${ROUND:-1}"; SFX=""; SRCBASE="/tmp/seedout-$ID"
if [ "$R" != "1" ]; then SFX="-r$R"; SRCBASE="/tmp/seedout$R-$ID"; fi
SRC="$SRCBASE/$M"
[ -f "$SRC/patch.diff" ] || { echo "$ID/$M: no patch.diff"; exit 3; }
D="$(mktemp -d /tmp/seedchk-XXXXXX)"; trap 'rm -rf "$D"' EXIT
rsync -a --exclude .git /repo/ "$D/clean/"; rsync -a --exclude .git /repo/ "$D/mut/"
( cd "$D/mut" && git init -q . && git apply --whitespace=nowarn "$SRC/patch.diff" ) 2>"$D/apply.err" || ( cd "$D/mut" && patch -p1 -s < "$SRC/patch.diff" ) || { echo "$ID/$M: PATCH DOES NOT APPLY"; cat "$D/apply.err"; exit 3; }
rm -rf "$D/mut/.git"
( cd "$D/mut" && go build ./... ) >"$D/build.log" 2>&1 || { echo "$ID/$M: DOES NOT BUILD"; head "$D/build.log"; exit 3; }
suite=fail
for i in 1 2 3 4 5 6; do ( cd "$D/mut" && go test -vet=off -count=1 -timeout 120s ./... ) >"$D/suite.log" 2>&1 && { suite=pass; break; }; done
[ $suite = pass ] || { grep -E "^--- FAIL" "$D/suite.log" | grep -v TestPing | grep -q . || suite="pass(only TestPing flaked)"; }
# demonstration
demo_with=? ; demo_without=? ; democmd=""
run_demo() { # dir
  local dir="$1"
  if [ -f "$SRC/demo_test.go" ]; then
    pkg=$(grep -m1 '^package ' "$SRC/demo_test.go" | awk '{print $2}'); sub=client; case "$pkg" in state*) sub=state;; esac
    cp "$SRC/demo_test.go" "$dir/$sub/zz_demo_test.go"
    rf=""; grep -q -- '-race' "$SRC/meta.json" 2>/dev/null && rf="-race"   # the demonstration says it needs the race detector
    ( cd "$dir" && go test $rf -vet=off -count=1 -timeout 300s -run 'Demo|demo|C[0-9][0-9]' ./$sub ) >"$D/demo.log" 2>&1; rc=$?
    rm -f "$dir/$sub/zz_demo_test.go"; return $rc
  elif [ -d "$SRC/demo" ]; then
    rm -rf "$D/demo"; cp -r "$SRC/demo" "$D/demo"
    ( cd "$D/demo" && { [ -f go.mod ] || printf 'module demo\n\ngo 1.21\n\nrequire github.com/fluffle/goirc v0.0.0\n' > go.mod; }
      sed -i '/^replace github.com\/fluffle\/goirc/d' go.mod; echo "replace github.com/fluffle/goirc => $dir" >> go.mod; cp /repo/go.sum . 2>/dev/null
      timeout 300 go run . ) >"$D/demo.log" 2>&1; return $?
  fi
  return 99
}
run_demo "$D/mut"; rcw=$?; cp "$D/demo.log" "$D/demo_with.log" 2>/dev/null
run_demo "$D/clean"; rco=$?; cp "$D/demo.log" "$D/demo_without.log" 2>/dev/null
[ $rcw -ne 0 ] && [ $rcw -ne 99 ] && demo_with=FAILS || demo_with="passes(rc=$rcw)"
[ $rco -eq 0 ] && demo_without=passes || demo_without="FAILS(rc=$rco)"
OUT="/verif/seeded/$ID$SFX-$M"; mkdir -p "$OUT"
cp "$SRC/patch.diff" "$OUT/"; [ -f "$SRC/demo_test.go" ] && cp "$SRC/demo_test.go" "$OUT/demo_test.go.txt"; [ -d "$SRC/demo" ] && { mkdir -p "$OUT/demo"; for f in "$SRC"/demo/*; do cp "$f" "$OUT/demo/$(basename "$f").txt"; done; }
results=""
for chk in $CHECKS; do
  out="$(cd /verif && VERIF_REPO="$D/mut" VERIF_OUT="$D/vo" timeout 1500 ./check "$chk" ${TIER:-quick} 2>&1)"; rc=$?
  case $rc in 1) v="CAUGHT: $(echo "$out" | grep -m1 -A1 '^VIOLATION' | tail -1 | sed 's/^ *//' | cut -c1-200)";; 0) v="MISSED";; *) v="INCONCLUSIVE(rc=$rc): $(echo "$out" | grep -m1 INCONCLUSIVE | cut -c1-200)";; esac
  results="$results$chk ${TIER:-quick}: $v\n"
  echo "$ID/$M: $chk $v"
done
python3 - "$SRC/meta.json" "$OUT/meta.json" "$suite" "$demo_with" "$demo_without" "$(printf "$results")" <<'PY'
import json,sys
src,dst,suite,dw,do,res=sys.argv[1:7]
try: m=json.load(open(src))
except Exception as e: m={"note":"agent's meta.json missing or invalid: %s"%e}
m["verified_by_builder"]={"repo_suite_with_patch":suite,"demonstration_with_patch":dw,"demonstration_without_patch":do,
  "how":"tools/seeded.sh: rsync copy of /repo, git apply patch.diff, go test ./... (x3), demonstration dropped into the package and run with and without the patch, then ./check <id> quick with VERIF_REPO pointing at the patched copy",
  "check_results":[l for l in res.split("\n") if l]}
json.dump(m,open(dst,"w"),indent=1)
PY
echo "$ID/$M: suite=$suite demo_with=$demo_with demo_without=$demo_without"
