#!/usr/bin/env python3
"""Validate MANIFEST.json and every evidence file against the schemas (run with python3-vt)."""
import json, glob, sys, jsonschema
ok=True
m=json.load(open('/verif/MANIFEST.json')); s=json.load(open('/root/.vp/MANIFEST.schema.json'))
jsonschema.validate(m,s); print("manifest valid:", len(m["checks"]), "checks")
es=json.load(open('/root/.vp/EVIDENCE.schema.json'))
for c in m["checks"]:
    f=c["evidence_file"]
    try:
        e=json.load(open(f)); jsonschema.validate(e,es)
        print("ok", f, e["tier"], "evals", e["coverage"]["evaluations"], "distinct", e["coverage"]["distinct_nontrivial"], "viol", e.get("violations"))
    except Exception as ex:
        ok=False; print("BAD", f, str(ex)[:300])
sys.exit(0 if ok else 1)
